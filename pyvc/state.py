"""Execution state (one per path)."""
from __future__ import annotations

import itertools
from typing import Any

import z3

from .values import Ref

_counter = itertools.count(1)


def fresh_id() -> int:
    return next(_counter)


class State:
    __slots__ = ("pc", "heap", "envs", "log", "created", "known", "ctor", "undet", "memo")

    def __init__(self):
        self.pc: list = []  # path condition (z3 Bool terms)
        self.heap: dict[int, Any] = {}
        self.envs: dict[int, dict[str, Any]] = {}
        self.log: list = []  # ghost event log (calls to uninterpreted functions, prints ...)
        self.created: list = []  # fresh z3 constants created on this path (for loop summaries)
        self.known: dict = {}  # z3 ast id -> bool: conditions already decided on this path
        self.memo: dict = {}  # functools.cache ghost maps: qualname -> ((args...), result) entries
        self.undet: list = []  # fresh constants whose value is NOT determined by the path facts (havoc)
        self.ctor: dict = {}  # z3 ast id of an AST term -> (term, constructor name) known on this path

    def fork(self) -> "State":
        s = State()
        s.pc = list(self.pc)
        s.heap = dict(self.heap)
        s.envs = {k: dict(v) for k, v in self.envs.items()}
        s.log = list(self.log)
        s.created = list(self.created)
        s.known = dict(self.known)
        s.ctor = dict(self.ctor)
        s.undet = list(self.undet)
        s.memo = {k: list(v) for k, v in self.memo.items()}
        return s

    note = None  # set by Exec: callback(state, fact) recording constructor knowledge

    def assume(self, *facts):
        for f in facts:
            if f is True or (z3.is_true(f) if z3.is_expr(f) else False):
                continue
            self.pc.append(f)
            if State.note is not None:
                State.note(self, f)

    def alloc(self, obj) -> Ref:
        i = fresh_id()
        self.heap[i] = obj
        return Ref(i)

    def new_env(self, init=None) -> int:
        i = fresh_id()
        self.envs[i] = dict(init or {})
        return i
