"""Logical model of Python values and of clingo.ast, generated from build/schema.json.

Sorts
  Str      uninterpreted (string literals become distinct constants via str_id)
  Sym      datatype: clingo.Symbol  (Number(n) | Infimum | Supremum | String(s) | Fun(name, args, positive))
  AST      datatype: one constructor per clingo.ast constructor (location dropped) + NoneAST
  Lst_<T>  uninterpreted, with len_<T> : Lst -> Int, at_<T> : Lst x Int -> T   (Boogie style; no Seq theory)
  enums    z3 EnumSorts generated from clingo's enums
  records  Predicate, SignedPredicate, Mapping, AnnotatedPredicate (z3 datatypes)

Types (python-side descriptors, hashable tuples):
  'int' 'bool' 'str' 'ast' 'sym' ('enum', Name) ('list', T) ('set', T) ('tuple', T1..Tn) ('rec', Name)
"""
from __future__ import annotations

import json
import z3

# ----------------------------------------------------------------------------------------------
# types


def ty_name(t) -> str:
    if isinstance(t, str):
        return t
    return t[0] + "_" + "_".join(ty_name(x) for x in t[1:])


class Model:
    """All sorts/functions; one instance per process."""

    def __init__(self, schema_path: str):
        with open(schema_path, encoding="utf8") as f:
            self.schema = json.load(f)
        self.Str = z3.DeclareSort("Str")
        self.str_id = z3.Function("str_id", self.Str, z3.IntSort())
        self.str_concat = z3.Function("str_concat", self.Str, self.Str, self.Str)
        self.str_of_int = z3.Function("str_of_int", z3.IntSort(), self.Str)
        self._strlits: dict[str, z3.ExprRef] = {}
        self.enums: dict[str, tuple[z3.SortRef, dict[str, z3.ExprRef]]] = {}
        self.enum_values: dict[str, dict[str, int]] = {}
        for name, members in self.schema["enums"].items():
            sort, consts = z3.EnumSort(name, [f"{name}_{m}" for m, _ in members])
            self.enums[name] = (sort, {m: c for (m, _), c in zip(members, consts)})
            self.enum_values[name] = {m: v for m, v in members}
        self._lst: dict[str, tuple] = {}
        self._sorts: dict[str, z3.SortRef] = {}
        self._build_sym()
        self._build_ast()
        self._build_records()
        self.global_axioms: list[z3.BoolRef] = []
        self._lst_axioms_done: set[str] = set()

    # ------------------------------------------------------------------------------------------
    def strlit(self, s: str) -> z3.ExprRef:
        if s not in self._strlits:
            c = z3.Const(f"str!{len(self._strlits)}!{_safe(s)}", self.Str)
            self._strlits[s] = c
        return self._strlits[s]

    def strlit_axioms(self) -> list[z3.BoolRef]:
        """distinctness of all string literals used so far"""
        ax = []
        for i, (s, c) in enumerate(self._strlits.items()):
            ax.append(self.str_id(c) == i)
        return ax

    def strlit_value(self, c) -> str | None:
        for s, k in self._strlits.items():
            if k.eq(c):
                return s
        return None

    # ------------------------------------------------------------------------------------------
    def _build_sym(self):
        self.SymLst = z3.DeclareSort("SymLst")
        Sym = z3.Datatype("Sym")
        Sym.declare("SymNumber", ("sym_number", z3.IntSort()))
        Sym.declare("SymInfimum")
        Sym.declare("SymSupremum")
        Sym.declare("SymString", ("sym_string", self.Str))
        Sym.declare("SymFunction", ("sym_name", self.Str), ("sym_args", self.SymLst), ("sym_positive", z3.BoolSort()))
        self.Sym = Sym.create()

    def sym_type(self, s):
        """clingo.Symbol.type as SymbolType enum term"""
        st, m = self.enums["SymbolType"]
        S = self.Sym
        return z3.If(
            S.is_SymNumber(s),
            m["Number"],
            z3.If(
                S.is_SymInfimum(s),
                m["Infimum"],
                z3.If(S.is_SymSupremum(s), m["Supremum"], z3.If(S.is_SymString(s), m["String"], m["Function"])),
            ),
        )

    # ------------------------------------------------------------------------------------------
    def _field_ty(self, cname, f):
        alts, mult = f["alts"], f["mult"]
        prim = {"str": "str", "int": "int", "bool": "bool", "clingo.Symbol": "sym"}
        if len(alts) == 1 and alts[0] in prim:
            base = prim[alts[0]]
        elif len(alts) == 1 and alts[0] in self.schema["enums"]:
            base = ("enum", alts[0])
        else:
            base = "ast"
        if mult in ("*", "+"):
            return ("list", base)
        return base

    def _build_ast(self):
        cons = self.schema["constructors"]
        sigs = self.schema["signatures"]
        self.fields: dict[str, list[dict]] = {}
        self.LstAST = z3.DeclareSort("Lst_ast")
        self.LstStr = z3.DeclareSort("Lst_str")
        self._sorts["list_ast"] = self.LstAST
        self._sorts["list_str"] = self.LstStr
        AST = z3.Datatype("AST")
        AST.declare("NoneAST")
        for cname in sorted(cons):
            fl = []
            real_names = [s["name"] for s in sigs.get(cname, [])]
            for idx, f in enumerate(cons[cname]):
                # attribute names of the real objects are the constructor parameter names
                fname = real_names[idx] if idx < len(real_names) else f["name"]
                if f["alts"] == ["Location"]:
                    continue
                ty = self._field_ty(cname, f)
                fl.append({"name": fname, "ty": ty, "alts": f["alts"], "mult": f["mult"], "docname": f["name"]})
            self.fields[cname] = fl
            args = []
            for f in fl:
                ty = f["ty"]
                if ty == "ast":
                    srt = AST
                elif ty == ("list", "ast"):
                    srt = self.LstAST
                elif ty == ("list", "str"):
                    srt = self.LstStr
                else:
                    srt = self.sort(ty)
                args.append((f"{cname}_{f['name']}", srt))
            AST.declare(cname, *args)
        self.AST = AST.create()
        self._sorts["ast"] = self.AST
        self.NoneAST = self.AST.NoneAST
        self.ctor_names = sorted(cons)
        # which constructors have a field of a given name, and with what type
        self.field_index: dict[str, list[tuple[str, object]]] = {}
        for cname, fl in self.fields.items():
            for f in fl:
                self.field_index.setdefault(f["name"], []).append((cname, f["ty"]))
        st, mem = self.enums["ASTType"]
        self.asttype_sort = st
        self.recognizer_ids = {getattr(self.AST, 'is_' + c).get_id(): c for c in self.ctor_names + ['NoneAST']}

    def is_ctor(self, cname, x):
        return getattr(self.AST, "is_" + cname)(x)

    def ctor(self, cname):
        return getattr(self.AST, cname)

    def acc(self, cname, fname):
        return getattr(self.AST, f"{cname}_{fname}")

    def ast_type(self, x):
        """x.ast_type as a term of the ASTType enum (NoneAST maps to an arbitrary but fixed extra value: Id)"""
        st, mem = self.enums["ASTType"]
        e = mem["Id"]
        for cname in self.ctor_names:
            if cname == "Id" or cname not in mem:
                continue
            e = z3.If(self.is_ctor(cname, x), mem[cname], e)
        return e

    # ------------------------------------------------------------------------------------------
    def _build_records(self):
        Pred = z3.Datatype("Predicate")
        Pred.declare("Predicate", ("Predicate_name", self.Str), ("Predicate_arity", z3.IntSort()))
        self.Pred = Pred.create()
        self._sorts["rec_Predicate"] = self.Pred
        sign_sort = self.enums["Sign"][0]
        SP = z3.Datatype("SignedPredicate")
        SP.declare("SignedPredicate", ("SignedPredicate_sign", sign_sort), ("SignedPredicate_pred", self.Pred))
        self.SignedPred = SP.create()
        self._sorts["rec_SignedPredicate"] = self.SignedPred
        intlst = self.sort(("list", "int"))
        Mp = z3.Datatype("Mapping")
        Mp.declare(
            "Mapping",
            ("Mapping_head_pred", self.Pred),
            ("Mapping_body_pred", self.SignedPred),
            ("Mapping_var_map", intlst),
        )
        self.Mapping = Mp.create()
        self._sorts["rec_Mapping"] = self.Mapping
        AP = z3.Datatype("AnnotatedPredicate")
        AP.declare(
            "AnnotatedPredicate", ("AnnotatedPredicate_pred", self.Pred), ("AnnotatedPredicate_annotated_positions", intlst)
        )
        self.AnnotatedPred = AP.create()
        self._sorts["rec_AnnotatedPredicate"] = self.AnnotatedPred
        self.records = {
            "Predicate": (self.Pred, [("name", "str"), ("arity", "int")]),
            "SignedPredicate": (self.SignedPred, [("sign", ("enum", "Sign")), ("pred", ("rec", "Predicate"))]),
            "Mapping": (
                self.Mapping,
                [
                    ("head_pred", ("rec", "Predicate")),
                    ("body_pred", ("rec", "SignedPredicate")),
                    ("var_map", ("list", "int")),
                ],
            ),
            "AnnotatedPredicate": (
                self.AnnotatedPred,
                [("pred", ("rec", "Predicate")), ("annotated_positions", ("list", "int"))],
            ),
        }

    def rec_ctor(self, name):
        return getattr(self.records[name][0], name)

    def rec_acc(self, name, field):
        return getattr(self.records[name][0], f"{name}_{field}")

    # ------------------------------------------------------------------------------------------
    def sort(self, ty) -> z3.SortRef:
        key = ty_name(ty)
        if key in self._sorts:
            return self._sorts[key]
        if ty == "int":
            s = z3.IntSort()
        elif ty == "bool":
            s = z3.BoolSort()
        elif ty == "str":
            s = self.Str
        elif ty == "sym":
            s = self.Sym
        elif ty == "ast":
            s = self.AST
        elif ty[0] == "enum":
            s = self.enums[ty[1]][0]
        elif ty[0] == "list":
            s = z3.DeclareSort("Lst_" + ty_name(ty[1]))
        elif ty[0] == "set":
            s = z3.ArraySort(self.sort(ty[1]), z3.BoolSort())
        elif ty[0] == "tuple":
            s, _mk, _accs = z3.TupleSort("Tup_" + key, [self.sort(t) for t in ty[1:]])
            self._tuples[key] = (s, _mk, _accs)
        elif ty[0] == "rec":
            s = self.records[ty[1]][0]
        else:
            raise ValueError(ty)
        self._sorts[key] = s
        return s

    _tuples: dict = {}

    def tuple_parts(self, ty):
        self.sort(ty)
        return self._tuples[ty_name(ty)]

    def lst_funcs(self, elem_ty):
        """(len, at) for lists of elem_ty"""
        key = ty_name(elem_ty)
        if key not in self._lst:
            ls = self.sort(("list", elem_ty))
            ln = z3.Function("len_" + key, ls, z3.IntSort())
            at = z3.Function("at_" + key, ls, z3.IntSort(), self.sort(elem_ty))
            self._lst[key] = (ln, at)
            l = z3.Const("l!ax", ls)
            self.global_axioms.append(z3.ForAll([l], ln(l) >= 0, patterns=[ln(l)]))
        return self._lst[key]

    def len(self, lst, elem_ty):
        return self.lst_funcs(elem_ty)[0](lst)

    def at(self, lst, i, elem_ty):
        return self.lst_funcs(elem_ty)[1](lst, i)

    def enum(self, name, member):
        return self.enums[name][1][member]


def _safe(s: str) -> str:
    return "".join(ch if ch.isalnum() or ch == "_" else "." for ch in s)[:24]
