"""Semantic base used in postconditions (DESIGN 3.5).  TRUSTED DEFINITIONS -- keep small.

Everything here is a *definition* (a macro expanding to a quantifier-free term), not a quantified
axiom, so failed obligations come back `sat` with a real counter-model instead of `unknown`.

  Val      ground symbols as a datatype:  VInf | VNum(n) | VOther(k) | VSup
           total order: #inf < all numbers (by value) < all other symbols (by an arbitrary code k) < #sup
           (gringo orders numbers below identifiers/functions/strings; the relative order *among* the
            non-numeric symbols is abstracted to an arbitrary total order given by the code)
  Env      variable assignment (uninterpreted); lookup(env, name) : Val
  tval     value of a term under env: defined for SymbolicTerm and Variable, uninterpreted otherwise
  cmp      cmp_holds(op, a, b)
  Interp   interpretation (uninterpreted); atom_true(I, name, args : VLst)
No definition mentions an ngo function.
"""
from __future__ import annotations

import z3


class Sem:
    def __init__(self, model):
        m = self.m = model
        V = z3.Datatype("Val")
        V.declare("VInf")
        V.declare("VNum", ("v_num", z3.IntSort()))
        V.declare("VOther", ("v_code", z3.IntSort()))
        V.declare("VSup")
        self.Val = V.create()
        self.Env = z3.DeclareSort("Env")
        self.Interp = z3.DeclareSort("Interp")
        self.vinf = self.Val.VInf
        self.vsup = self.Val.VSup
        self.vnum = self.Val.VNum
        self.sym_code = z3.Function("sym_code", m.Sym, z3.IntSort())
        self.lookup = z3.Function("env_lookup", self.Env, m.Str, self.Val)
        self.tval_u = z3.Function("tval_u", m.AST, self.Env, self.Val)
        self.VLst = z3.DeclareSort("VLst")
        self.vlen = z3.Function("vlen", self.VLst, z3.IntSort())
        self.vat = z3.Function("vat", self.VLst, z3.IntSort(), self.Val)
        self.atom_true = z3.Function("atom_true", self.Interp, m.Str, self.VLst, z3.BoolSort())
        self.axioms: list = []  # none: definitions only

    # -- order -------------------------------------------------------------------------------
    def rank(self, a):
        V = self.Val
        return z3.If(V.is_VInf(a), 0, z3.If(V.is_VNum(a), 1, z3.If(V.is_VOther(a), 2, 3)))

    def key(self, a):
        V = self.Val
        return z3.If(V.is_VNum(a), V.v_num(a), z3.If(V.is_VOther(a), V.v_code(a), 0))

    def vle(self, a, b):
        return z3.Or(self.rank(a) < self.rank(b), z3.And(self.rank(a) == self.rank(b), self.key(a) <= self.key(b)))

    def vlt(self, a, b):
        return z3.Or(self.rank(a) < self.rank(b), z3.And(self.rank(a) == self.rank(b), self.key(a) < self.key(b)))

    def is_num(self, a):
        return self.Val.is_VNum(a)

    def num_of(self, a):
        return self.Val.v_num(a)

    def symval(self, s):
        S = self.m.Sym
        return z3.If(
            S.is_SymNumber(s),
            self.Val.VNum(S.sym_number(s)),
            z3.If(S.is_SymInfimum(s), self.vinf, z3.If(S.is_SymSupremum(s), self.vsup, self.Val.VOther(self.sym_code(s)))),
        )

    def tval(self, t, env):
        A = self.m.AST
        return z3.If(
            A.is_SymbolicTerm(t),
            self.symval(A.SymbolicTerm_symbol(t)),
            z3.If(A.is_Variable(t), self.lookup(env, A.Variable_name(t)), self.tval_u(t, env)),
        )

    def cmp_holds(self, op, a, b):
        """op : ComparisonOperator term, a/b : Val"""
        E = self.m.enums["ComparisonOperator"][1]
        return z3.If(
            op == E["Equal"],
            a == b,
            z3.If(
                op == E["NotEqual"],
                a != b,
                z3.If(
                    op == E["LessThan"],
                    self.vlt(a, b),
                    z3.If(op == E["LessEqual"], self.vle(a, b), z3.If(op == E["GreaterThan"], self.vlt(b, a), self.vle(b, a))),
                ),
            ),
        )

    def cmp_int(self, op, a, b):
        E = self.m.enums["ComparisonOperator"][1]
        return z3.If(
            op == E["Equal"],
            a == b,
            z3.If(
                op == E["NotEqual"],
                a != b,
                z3.If(op == E["LessThan"], a < b, z3.If(op == E["LessEqual"], a <= b, z3.If(op == E["GreaterThan"], a > b, a >= b))),
            ),
        )

    def signed(self, sign, truth):
        """satisfaction of a literal with the given Sign whose atom has truth value `truth`
        (`not not a` is satisfied by an interpretation iff a is)"""
        S = self.m.enums["Sign"][1]
        return z3.If(sign == S["Negation"], z3.Not(truth), truth)

    def guard_left(self, g, v, env):
        """left guard `t op AGG` with aggregate value v (absent guard: true)"""
        m = self.m
        return z3.Or(g == m.NoneAST, self.cmp_holds(m.AST.Guard_comparison(g), self.tval(m.AST.Guard_term(g), env), v))

    def guard_right(self, g, v, env):
        m = self.m
        return z3.Or(g == m.NoneAST, self.cmp_holds(m.AST.Guard_comparison(g), v, self.tval(m.AST.Guard_term(g), env)))
