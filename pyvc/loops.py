"""Loop rules: unrolling of concrete iterables, invariant rule (sidecar LoopSpec), and automatic
summaries for the idioms named in DESIGN 3.3 (search loops, accumulate loops, flags, comprehensions,
any/all) obtained by executing the loop body once on a *generic* element at(xs, k)."""
from __future__ import annotations

import ast as pyast
from dataclasses import dataclass, field
from typing import Any, Callable, Optional

import z3

from .state import State, fresh_id
from .values import (
    BREAK,
    CONTINUE,
    NORMAL,
    BagObj,
    Builtin,
    DictObj,
    Fn,
    ListObj,
    Obj,
    Opaque,
    Outcome,
    Partial,
    Ref,
    SetObj,
    SV,
    Tup,
    Unsupported,
    View,
)

POISON = Opaque("__poison__")


@dataclass
class LoopSpec:
    """sidecar loop contract.  inv(ctx) -> z3 Bool;  modifies: {local name: logical type}
    heap_modifies: {local name: type} for containers mutated in place through that local name"""

    inv: Callable
    modifies: dict = field(default_factory=dict)
    variant: Optional[Callable] = None
    name: str = ""


class LoopCtx:
    """what an invariant may talk about"""

    rename: dict = {}

    def __init__(self, ex, st, fr, k, n, elem, old_st):
        self.ex, self.st, self.fr, self.k, self.n, self.elem, self.old_st = ex, st, fr, k, n, elem, old_st
        self.rename = dict(getattr(ex.L, "_rename", {}))

    def var(self, name):
        return self.ex.lookup(self.st, self.fr, self.rename.get(name, name))

    def old(self, name):
        return self.ex.lookup(self.old_st, self.fr, self.rename.get(name, name))

    def term(self, name, ty=None):
        return self.ex.to_term(self.st, self.var(name), ty)

    def old_term(self, name, ty=None):
        return self.ex.to_term(self.old_st, self.old(name), ty)


class Loops:
    def __init__(self, ex):
        self.ex = ex
        self.m = ex.m
        self.write_only: set[int] = set()

    # ------------------------------------------------------------------------------------------
    def _raised(self, exc, info=None):
        from .exec import Raised

        return Raised(exc, info)

    def loop_ordinal(self, fr, node):
        fn = fr.fn.node if fr.fn is not None else None
        if fn is None:
            return -1
        loops = [n for n in pyast.walk(fn) if isinstance(n, (pyast.For, pyast.While))]
        loops.sort(key=lambda n: (n.lineno, n.col_offset))
        for i, n in enumerate(loops):
            if n is node:
                return i
        return -1

    # ------------------------------------------------------------------------------------------
    def for_loop(self, node, st, fr):
        ex = self.ex
        if getattr(node, "is_async", False):
            raise Unsupported("async for")
        out = []
        for s, itv in ex.ev(node.iter, st, fr):
            from .exec import Raised

            if isinstance(itv, Raised):
                out.append((s, Outcome("raise", exc=itv.exc, info=itv.info)))
                continue
            out.extend(self.for_value(node, s, fr, itv))
        return out

    def for_value(self, node, st, fr, itv):
        ex = self.ex
        items = ex.B.concrete_items(st, itv)
        if items is None and isinstance(itv, View) and itv.kind == "dictitems":
            items = None
        if items is not None:
            return self.unroll(node, st, fr, items)
        key = (f"{fr.module}:{fr.qualname}", self.loop_ordinal(fr, node))
        spec = ex.loop_specs.get(key)
        if spec is None:
            # a loop may also be named by its header text (robust against loops added before it)
            spec = ex.loop_specs.get((key[0], f"for {pyast.unparse(node.target)} in {pyast.unparse(node.iter)}"))
        if spec is None:
            # ... or by what it iterates over only (robust against a renamed loop variable as well)
            spec = ex.loop_specs.get((key[0], f"in {pyast.unparse(node.iter)}"))
        if spec is not None:
            return self.for_with_invariant(node, st, fr, itv, spec, key)
        return self.for_summary(node, st, fr, itv, key)

    def unroll(self, node, st, fr, items):
        ex = self.ex
        live = [st]
        done = []  # (state, outcome) leaving the loop
        broke = []
        for it in items:
            nxt = []
            for s in live:
                for s2, o in ex.assign(node.target, it, s, fr):
                    if o.kind != "normal":
                        done.append((s2, o))
                        continue
                    for s3, o3 in ex.exec_block(node.body, s2, fr):
                        if o3.kind in ("normal", "continue"):
                            nxt.append(s3)
                        elif o3.kind == "break":
                            broke.append(s3)
                        else:
                            done.append((s3, o3))
            live = nxt
            if not live:
                break
        res = list(done)
        for s in live:
            if node.orelse:
                res.extend(ex.exec_block(node.orelse, s, fr))
            else:
                res.append((s, NORMAL))
        for s in broke:
            res.append((s, NORMAL))
        return res

    # ------------------------------------------------------------------------------------------
    # generic element access (handles map / filter views over a symbolic base sequence)
    def generic_elements(self, st, fr, itv, k):
        """-> (n_term, [(state, value)]) : value of the k-th element of the *base* sequence after
        applying map/filter layers; a filtered-out element yields value POISON-skip marker None-type `_SKIP`"""
        ex = self.ex
        if isinstance(itv, View) and itv.kind == "map":
            f, seqs = itv.args[0], itv.args[1:]
            if len(seqs) != 1:
                raise Unsupported("map over several symbolic sequences")
            n, res = self.generic_elements(st, fr, seqs[0], k)
            out = []
            for s, v in res:
                if v is _SKIP or self._is_raised(v):
                    out.append((s, v))
                    continue
                out.extend(ex.call(s, fr, f, [v], {}))
            return n, out
        if isinstance(itv, View) and itv.kind == "filter":
            f, seq = itv.args
            n, res = self.generic_elements(st, fr, seq, k)
            out = []
            for s, v in res:
                if v is _SKIP or self._is_raised(v):
                    out.append((s, v))
                    continue
                for s2, r in (ex.call(s, fr, f, [v], {}) if f is not None else [(s, v)]):
                    if self._is_raised(r):
                        out.append((s2, r))
                        continue
                    for s3, b in ex.branch_value(s2, r):
                        out.append((s3, v if b else _SKIP))
            return n, out
        if isinstance(itv, View) and itv.kind == "setiter":
            itv = itv.args[0]
        if ex.B._is_set(st, itv):
            # iteration over a set: order is an arbitrary duplicate-free enumeration
            t = ex.ty_of(st, itv)
            if t[1] is None:
                return z3.IntVal(0), []
            lst = ex.B.list_of_set(st, itv, t[1])
            itv = lst
        acc = ex.B.seq_access(st, itv)
        if acc is None:
            raise Unsupported(f"iteration over {itv!r}")
        n, el, et = acc
        if et is None:
            return n, []
        st.assume(0 <= k, k < n)
        return n, [(st, el(k))]

    def normalize_iter(self, st, itv):
        """turn set iteration into iteration over an arbitrary duplicate-free enumeration (facts go to st)"""
        ex = self.ex
        if isinstance(itv, View) and itv.kind in ("map", "filter"):
            return View(itv.kind, itv.args[:1] + tuple(self.normalize_iter(st, a) for a in itv.args[1:]))
        if isinstance(itv, View) and itv.kind in ("enumerate",):
            return View(itv.kind, (self.normalize_iter(st, itv.args[0]),) + itv.args[1:])
        if isinstance(itv, View) and itv.kind == "zip":
            return View("zip", tuple(self.normalize_iter(st, a) for a in itv.args))
        if ex.B._is_set(st, itv):
            t = ex.ty_of(st, itv)
            if t[1] is None:
                return st.alloc(ListObj(items=()))
            return ex.B.list_of_set(st, itv, t[1])
        return itv

    @staticmethod
    def _is_raised(v):
        from .exec import Raised

        return isinstance(v, Raised)

    # ------------------------------------------------------------------------------------------
    def assigned_names(self, stmts):
        names = set()

        def tgt(t):
            if isinstance(t, pyast.Name):
                names.add(t.id)
            elif isinstance(t, (pyast.Tuple, pyast.List)):
                for e in t.elts:
                    tgt(e)
            elif isinstance(t, pyast.Starred):
                tgt(t.value)

        stack = list(stmts)
        while stack:
            n = stack.pop()
            if isinstance(n, (pyast.FunctionDef, pyast.Lambda, pyast.ClassDef)):
                if isinstance(n, pyast.FunctionDef):
                    names.add(n.name)
                continue
            if isinstance(n, pyast.Assign):
                for t in n.targets:
                    tgt(t)
            elif isinstance(n, (pyast.AugAssign, pyast.AnnAssign)):
                tgt(n.target)
            elif isinstance(n, (pyast.For,)):
                tgt(n.target)
            elif isinstance(n, pyast.NamedExpr):
                tgt(n.target)
            elif isinstance(n, pyast.ExceptHandler) and n.name:
                names.add(n.name)
            stack.extend(pyast.iter_child_nodes(n))
        return names

    def for_summary(self, node, st, fr, itv, key):
        ex, m = self.ex, self.m
        k = z3.Int(f"k!{fresh_id()}")
        itv = self.normalize_iter(st, itv)
        # names assigned in the body that already exist: poison them during the generic iteration so that
        # a read of loop-carried state is detected (Unsupported -> needs a LoopSpec)
        assigned = self.assigned_names(node.body) | self.assigned_names([pyast.Assign(targets=[node.target], value=None)])
        target_names = self.assigned_names([pyast.Assign(targets=[node.target], value=None)])
        env = st.envs[fr.env_id]
        pre_vals = {nm: env[nm] for nm in assigned if nm in env}

        def run(prep_heap: dict):
            s0 = st.fork()
            for nm in pre_vals:
                if nm not in target_names:
                    s0.envs[fr.env_id][nm] = POISON
            for hid, obj in prep_heap.items():
                s0.heap[hid] = obj
            n, elems = self.generic_elements(s0, fr, itv, k)
            mark_states = []
            results = []
            for s1, v in elems:
                # range facts + path facts of the element computation are part of the delta
                s1.assume(0 <= k, k < n)
                if self._is_raised(v):
                    results.append((s1, Outcome("raise", exc=v.exc, info=v.info)))
                    continue
                if v is _SKIP:
                    results.append((s1, CONTINUE))
                    continue
                for s2, o in ex.assign(node.target, v, s1, fr):
                    if o.kind != "normal":
                        results.append((s2, o))
                        continue
                    results.extend(ex.exec_block(node.body, s2, fr))
            return n, results

        base_pc = len(st.pc)
        base_created = len(st.created)
        # pass 1: discover mutated pre-existing heap objects
        pre_heap_ids = set(st.heap)
        n, res1 = run({})
        if not res1 and not z3.is_int_value(n):
            pass
        mutated = set()
        for s, o in res1:
            if o.kind not in ("normal", "continue"):
                continue  # a mutation on a path that leaves the loop is carried by that path's own state
            for hid in pre_heap_ids:
                if s.heap.get(hid) is not st.heap[hid]:
                    mutated.add(hid)
        prep = {}
        for hid in mutated:
            o = st.heap[hid]
            if isinstance(o, ListObj):
                prep[hid] = ListObj(items=())
            elif isinstance(o, SetObj):
                prep[hid] = SetObj(items=())
            elif isinstance(o, DictObj) and o.default_factory in ("list", "set") and o.sym is None:
                prep[hid] = DictObj((), o.default_factory)
            elif isinstance(o, DictObj) and o.default_factory == "set" and o.sym is not None:
                key_ty, elem_ty, _arr = o.sym
                prep[hid] = DictObj((), "set", (key_ty, elem_ty, z3.K(m.sort(key_ty), z3.K(m.sort(elem_ty), False))))
            else:
                raise Unsupported(f"loop body mutates {type(o).__name__} (needs a LoopSpec) in {key}")
        # containers reachable only through an accumulating defaultdict are handled through the dict
        dict_ids = [hid for hid in mutated if isinstance(st.heap[hid], DictObj)]
        for hid in dict_ids:
            for _k, v in st.heap[hid].items:
                if isinstance(v, Ref) and v.id in mutated:
                    mutated.discard(v.id)
                    prep.pop(v.id, None)
        if mutated:
            saved_wo = set(self.write_only)
            self.write_only |= mutated
            try:
                n, res = run(prep)
            finally:
                self.write_only = saved_wo
        else:
            res = res1
        # range fact for k must be in every delta: add explicitly
        rng = z3.And(0 <= k, k < n)
        normal_paths, exit_paths = [], []
        for s, o in res:
            (normal_paths if o.kind in ("normal", "continue") else exit_paths).append((s, o))
        # collect per-path information
        def delta(s):
            return s.pc[base_pc:]

        def created(s):
            return s.created[base_created:]

        base_undet = len(st.undet)

        def und(s):
            return len(s.undet) > base_undet

        self._und = und

        # flags: env variables (not targets) assigned on some normal path
        flag_assign = {}  # name -> list of (path index, value)
        for idx, (s, o) in enumerate(normal_paths):
            for nm, old in pre_vals.items():
                if nm in target_names:
                    continue
                cur = s.envs[fr.env_id].get(nm, POISON)
                if cur is not POISON:
                    flag_assign.setdefault(nm, []).append((idx, cur))
        # variables newly created in the body (did not exist before) stay undefined after the loop
        # contributions to accumulators
        contribs = {hid: [] for hid in mutated}  # hid -> list of (path idx, ("items", [...]) | ("sym", SV))
        for idx, (s, o) in enumerate(normal_paths):
            for hid in mutated:
                obj = s.heap[hid]
                if isinstance(obj, ListObj):
                    if obj.items is not None:
                        et = None
                        contribs[hid].append((idx, ("items", list(obj.items))))
                    else:
                        contribs[hid].append((idx, ("sym", obj.sv)))
                elif isinstance(obj, SetObj):
                    if obj.items is not None:
                        contribs[hid].append((idx, ("items", list(obj.items))))
                    else:
                        contribs[hid].append((idx, ("symset", obj.sv)))
                elif isinstance(obj, DictObj) and obj.sym is not None:
                    contribs[hid].append((idx, ("symdict", obj.sym)))
                elif isinstance(obj, DictObj):
                    contribs[hid].append((idx, ("dict", [(kk, s.heap[vv.id]) for kk, vv in obj.items])))
        # ---- build the states after the loop ------------------------------------------------
        out = []
        any_exit = None
        if exit_paths:
            disj = []
            for s, o in exit_paths:
                d = z3.And(*delta(s))
                cs = created(s)
                disj.append(z3.Exists(cs, d) if cs else d)
            any_exit = z3.Or(*disj) if len(disj) > 1 else disj[0]
            if any(und(s) for s, _o in exit_paths):
                any_exit = None  # havocked values on an exit path: "did not exit" cannot be expressed -> no fact (sound)
        for s, o in exit_paths:
            # exit at index k (a skolem constant of that state); earlier iterations did not exit
            if any_exit is not None:
                kk = z3.Int(f"kk!{fresh_id()}")
                s.assume(z3.ForAll([kk], z3.Implies(z3.And(0 <= kk, kk < k), z3.substitute(z3.Not(any_exit), (k, kk)))))
            for hid in mutated:
                s.heap[hid] = ListObj(items=None, sv=None) if False else _PoisonObj()
            # restore non-assigned-on-this-path variables
            for nm, old in pre_vals.items():
                if nm not in target_names and s.envs[fr.env_id].get(nm) is POISON:
                    s.envs[fr.env_id][nm] = old if nm not in flag_assign else POISON
            s.created.append(k)
            if o.kind == "break":
                out.append((s, NORMAL))
            else:
                out.append((s, o))
        # fall-through
        ft = st.fork()
        if any_exit is not None:
            ft.assume(z3.ForAll([k], z3.Not(any_exit)))
        if not normal_paths:
            # every iteration exits: fall-through only if the sequence is empty
            ft.assume(n <= 0)
        # accumulators
        for hid in mutated:
            old = st.heap[hid]
            if isinstance(old, DictObj) and (old.sym is not None or any(kind == "symdict" for _i, (kind, _c) in contribs[hid])):
                self.summarise_symdict(ft, hid, old, contribs[hid], normal_paths, k, delta, created)
                continue
            if isinstance(old, DictObj):
                self.summarise_dict(ft, hid, old, contribs[hid], normal_paths, exit_paths, k, n, delta, created, rng)
                continue
            self.summarise_accumulator(ft, hid, old, contribs[hid], normal_paths, exit_paths, k, n, delta, created, rng)
        # loop targets and body-local variables are undefined after the loop (poison)
        for nm in assigned:
            if nm in pre_vals and nm not in flag_assign and nm not in target_names:
                ft.envs[fr.env_id][nm] = pre_vals[nm]
            elif nm not in pre_vals or nm in target_names:
                ft.envs[fr.env_id][nm] = POISON
        fts = [ft]
        for nm, assigns in flag_assign.items():
            vals = [v for _, v in assigns]
            if not all(self._same_const(vals[0], v) for v in vals) or any(und(normal_paths[idx][0]) for idx, _v in assigns):
                for f in fts:
                    f.envs[fr.env_id][nm] = POISON
                continue
            conds = []
            for idx, _v in assigns:
                s, _o = normal_paths[idx]
                d = z3.And(*delta(s))
                cs = created(s)
                conds.append(z3.Exists(cs, d) if cs else d)
            some = z3.Exists([k], z3.Or(*conds) if len(conds) > 1 else conds[0])
            nxt = []
            for f in fts:
                for f2, b in ex.branch(f, some):
                    f2.envs[fr.env_id][nm] = vals[0] if b else pre_vals[nm]
                    nxt.append(f2)
            fts = nxt
        for f in fts:
            if node.orelse:
                out.extend(ex.exec_block(node.orelse, f, fr))
            else:
                out.append((f, NORMAL))
        ex.notes.append(f"auto-summary of loop {key}: {len(normal_paths)} continuing / {len(exit_paths)} exiting generic paths")
        return out

    @staticmethod
    def _same_const(a, b):
        if isinstance(a, SV) or isinstance(b, SV):
            return isinstance(a, SV) and isinstance(b, SV) and a.ty == b.ty and a.term.eq(b.term)
        if isinstance(a, (bool, int, str, type(None))) and type(a) is type(b):
            return a == b
        return False

    def summarise_symdict(self, ft, hid, old, contribs, normal_paths, k, delta, created):
        """symbolic defaultdict(set) (map key -> set): new[p][x] <=> old[p][x] or some iteration added x to bucket p"""
        ex, m = self.ex, self.m
        sym = old.sym
        for _idx, (kind, c) in contribs:
            if kind == "symdict":
                sym = sym or c
        if sym is None:
            return
        key_ty, elem_ty, _ = sym
        if any(self._und(normal_paths[idx][0]) for idx, _c in contribs):
            raise Unsupported("symbolic dict accumulator fed with havocked values (needs a LoopSpec)")
        pk = z3.Const(f"p!sd{fresh_id()}", m.sort(key_ty))
        xe = z3.Const(f"x!sd{fresh_id()}", m.sort(elem_ty))
        disj = []
        for idx, (kind, c) in contribs:
            if kind != "symdict":
                if kind == "dict" and not c:
                    continue
                raise Unsupported("mixed concrete / symbolic dict accumulator")
            s = normal_paths[idx][0]
            d = z3.And(*(delta(s) + [z3.Select(z3.Select(c[2], pk), xe)]))
            cs = created(s)
            disj.append(z3.Exists(cs, d) if cs else d)
        added = z3.Exists([k], z3.Or(*disj) if len(disj) > 1 else disj[0]) if disj else z3.BoolVal(False)
        oldsel = z3.Select(z3.Select(old.sym[2], pk), xe) if old.sym is not None else z3.BoolVal(False)
        new = z3.Lambda([pk], z3.Lambda([xe], z3.Or(oldsel, added)))
        ft.heap[hid] = DictObj((), "set", (key_ty, elem_ty, new))

    def summarise_dict(self, ft, hid, old, contribs, normal_paths, exit_paths, k, n, delta, created, rng):
        """defaultdict(list|set) used as buckets with concrete keys: every bucket is an accumulator of its own.
        (a bucket exists afterwards for every key some iteration *may* touch -- key presence is not tracked)"""
        ex = self.ex
        keys = [kk for kk, _v in old.items]

        def concrete_key(kk):
            if isinstance(kk, (bool, int, str)) or kk is None:
                return True
            return isinstance(kk, SV) and z3.is_const(kk.term) and kk.term.decl().kind() == z3.Z3_OP_DT_CONSTRUCTOR

        for _idx, (_kind, items) in contribs:
            for kk, _inner in items:
                if not concrete_key(kk):
                    raise Unsupported("defaultdict accumulator with symbolic keys (needs a LoopSpec)")
                if not any(ex.eq(ft, kk, k2) is True for k2 in keys):
                    if any(not isinstance(ex.eq(ft, kk, k2), bool) for k2 in keys):
                        raise Unsupported("defaultdict accumulator with symbolic keys (needs a LoopSpec)")
                    keys.append(kk)
        new_items = []
        for kk in keys:
            old_inner = None
            for k2, v in old.items:
                if ex.eq(ft, kk, k2) is True:
                    old_inner = ft.heap[v.id]
            if old_inner is None:
                old_inner = ListObj(items=()) if old.default_factory == "list" else SetObj(items=())
            sub = []
            for idx, (_kind, items) in contribs:
                for k2, inner in items:
                    if ex.eq(ft, kk, k2) is True:
                        if isinstance(inner, ListObj):
                            sub.append((idx, ("items", list(inner.items)) if inner.items is not None else ("sym", inner.sv)))
                        else:
                            sub.append((idx, ("items", list(inner.items)) if inner.items is not None else ("symset", inner.sv)))
            ref = ft.alloc(old_inner)
            # paths that do not touch this bucket contribute nothing
            touched = {idx for idx, _ in sub}
            for idx in range(len(normal_paths)):
                if idx not in touched:
                    sub.append((idx, ("items", [])))
            sub.sort(key=lambda t: t[0])
            self.summarise_accumulator(ft, ref.id, old_inner, sub, normal_paths, exit_paths, k, n, delta, created, rng)
            new_items.append((kk, ref))
        ft.heap[hid] = DictObj(tuple(new_items), old.default_factory)
        ex.notes.append("defaultdict accumulator: bucket presence after the loop is not tracked (all possibly touched keys exist)")

    def summarise_accumulator(self, ft, hid, old, contribs, normal_paths, exit_paths, k, n, delta, created, rng):
        ex, m = self.ex, self.m
        if isinstance(old, SetObj):
            et = None
            if old.sv is not None:
                et = old.sv.ty[1]
            elif old.items:
                et = ex.ty_of(ft, old.items[0])
            for idx, (kind, c) in contribs:
                if kind == "items" and c:
                    et = et or ex.ty_of(normal_paths[idx][0], c[0])
                elif kind == "symset":
                    et = et or c.ty[1]
            if et is None:
                return
            x = z3.Const(f"x!acc{fresh_id()}", m.sort(et))
            disj = []
            for idx, (kind, c) in contribs:
                s = normal_paths[idx][0]
                if kind == "items":
                    if not c:
                        continue
                    mem = z3.Or(*[x == ex.to_term(s, it, et) for it in c])
                else:
                    mem = z3.Select(c.term, x)
                d = z3.And(*(delta(s) + [mem]))
                cs = created(s)
                disj.append(z3.Exists(cs, d) if cs else d)
            if old.sv is not None:
                oldt = old.sv.term
            else:
                oldt = z3.K(m.sort(et), False)
                for it in old.items or ():
                    oldt = z3.Store(oldt, ex.to_term(ft, it, et), True)
            added = z3.Exists([k], z3.Or(*disj) if len(disj) > 1 else disj[0]) if disj else z3.BoolVal(False)
            if any(self._und(normal_paths[idx][0]) for idx, _c in contribs):
                # some contribution depends on havocked values: only "every new member was added by some iteration"
                new = ex.fresh(ft, "acc", ("set", et))
                ft.assume(z3.ForAll([x], z3.Implies(z3.Select(new.term, x), z3.Or(z3.Select(oldt, x), added)), patterns=[z3.Select(new.term, x)]))
                ft.assume(z3.ForAll([x], z3.Implies(z3.Select(oldt, x), z3.Select(new.term, x))))
            else:
                new = SV(z3.Lambda([x], z3.Or(z3.Select(oldt, x), added)), ("set", et))
            ft.heap[hid] = SetObj(sv=new, frozen=old.frozen)
            return
        # list accumulator
        et = None
        if old.sv is not None:
            et = old.sv.ty[1]
        elif old.items:
            et = ex.ty_of(ft, old.items[0])
        for idx, (kind, c) in contribs:
            if kind == "items" and c:
                et = et or ex.ty_of(normal_paths[idx][0], c[0])
            elif kind == "sym":
                et = et or c.ty[1]
        if et is None:
            return
        ln, at = m.lst_funcs(et)
        new = ex.fresh(ft, "acc", ("list", et))
        if old.sv is not None:
            oldt = old.sv.term
        else:
            oldt = ex.lift_list(ft, old.items or (), et).term
        j = z3.Int(f"j!acc{fresh_id()}")
        ft.assume(ln(new.term) >= ln(oldt))
        ft.assume(z3.ForAll([j], z3.Implies(z3.And(0 <= j, j < ln(oldt)), at(new.term, j) == at(oldt, j)), patterns=[at(new.term, j)]))
        one_each = (
            len(contribs) == len(normal_paths)
            and all(kind == "items" and len(c) == 1 for _, (kind, c) in contribs)
            and not exit_paths_break(exit_paths)
        )
        if one_each:
            # map: exactly one element appended per (non-exiting) iteration
            ft.assume(ln(new.term) == ln(oldt) + z3.If(n > 0, n, 0))
            alts = []
            for idx, (kind, c) in contribs:
                s = normal_paths[idx][0]
                val = ex.to_term(s, c[0], et)
                if not self._und(s):
                    body = z3.Implies(z3.And(*delta(s)), at(new.term, ln(oldt) + k) == val)
                    ft.assume(z3.ForAll([k] + created(s), body))
                d = z3.And(*(delta(s) + [at(new.term, ln(oldt) + k) == val]))
                cs = created(s)
                alts.append(z3.Exists(cs, d) if cs else d)
            # exact statement: iteration k took one of the paths, with *some* values of the path-local constants
            if any(created(normal_paths[idx][0]) for idx, _c in contribs) or any(self._und(normal_paths[idx][0]) for idx, _c in contribs):
                ft.assume(z3.ForAll([k], z3.Implies(z3.And(0 <= k, k < n), z3.Or(*alts)), patterns=[at(new.term, ln(oldt) + k)]))
        else:
            # (1) every new position holds an element contributed by some iteration
            j2 = z3.Int(f"j2!acc{fresh_id()}")
            xj = at(new.term, j2)
            disj = []
            for idx, (kind, c) in contribs:
                s = normal_paths[idx][0]
                if kind == "items":
                    if not c:
                        continue
                    mem = z3.Or(*[xj == ex.to_term(s, it, et) for it in c])
                else:
                    jj = z3.Int(f"jj!acc{fresh_id()}")
                    mem = z3.Exists([jj], z3.And(0 <= jj, jj < ln(c.term), at(c.term, jj) == xj))
                d = z3.And(*(delta(s) + [mem]))
                disj.append(z3.Exists([k] + created(s), d))
            src = z3.Or(*disj) if len(disj) > 1 else (disj[0] if disj else z3.BoolVal(False))
            ft.assume(z3.ForAll([j2], z3.Implies(z3.And(ln(oldt) <= j2, j2 < ln(new.term)), src), patterns=[at(new.term, j2)]))
            # (2) every contributed element occurs at some new position
            for idx, (kind, c) in contribs:
                s = normal_paths[idx][0]
                if self._und(s):
                    continue  # havocked values: "this value was appended" cannot be claimed for every admissible value
                j3 = z3.Int(f"j3!acc{fresh_id()}")
                if kind == "items":
                    for it in c:
                        val = ex.to_term(s, it, et)
                        occurs = z3.Exists([j3], z3.And(ln(oldt) <= j3, j3 < ln(new.term), at(new.term, j3) == val))
                        ft.assume(z3.ForAll([k] + created(s), z3.Implies(z3.And(*delta(s)), occurs)))
                else:
                    jj = z3.Int(f"jj!acc{fresh_id()}")
                    occurs = z3.Exists([j3], z3.And(ln(oldt) <= j3, j3 < ln(new.term), at(new.term, j3) == at(c.term, jj)))
                    ft.assume(z3.ForAll([k, jj] + created(s), z3.Implies(z3.And(*(delta(s) + [0 <= jj, jj < ln(c.term)])), occurs)))
        ft.heap[hid] = ListObj(sv=new)

    # ------------------------------------------------------------------------------------------
    def resolve_names(self, spec: LoopSpec, node, st, fr):
        """a LoopSpec names loop-carried local variables; if the code renamed one of them (a harmless edit) map the
        spec name to the unique unclaimed variable the loop body assigns or mutates that has the declared type"""
        ex = self.ex
        assigned = []
        # the loop's own target variables keep their last value after the loop
        for n in pyast.walk(node.target) if hasattr(node, "target") else []:
            if isinstance(n, pyast.Name) and n.id not in assigned:
                assigned.append(n.id)
        for n in pyast.walk(pyast.Module(body=list(node.body), type_ignores=[])):
            tgt = None
            if isinstance(n, pyast.Name) and isinstance(n.ctx, pyast.Store):
                tgt = n.id
            elif isinstance(n, pyast.Call) and isinstance(n.func, pyast.Attribute) and isinstance(n.func.value, pyast.Name) and n.func.attr in ("append", "extend", "add", "update", "remove", "discard", "pop", "insert"):
                tgt = n.func.value.id
            if tgt is not None and tgt not in assigned:
                assigned.append(tgt)
        spec_names = [nm for nm in spec.modifies if "." not in nm]
        missing = [nm for nm in spec_names if nm not in assigned and not self._has(st, fr, nm)]
        extra = [a for a in assigned if a not in spec_names]
        mapping = {}
        for nm in missing:
            want = spec.modifies[nm]
            cands = []
            for a in extra:
                if a in mapping.values():
                    continue
                if self._has(st, fr, a):
                    try:
                        t = ex.ty_of(st, ex.lookup(st, fr, a))
                    except Unsupported:
                        t = None
                    if t == want or (isinstance(want, tuple) and want[0] == "bag") or (isinstance(t, tuple) and isinstance(want, tuple) and t[0] == want[0] and (t[1] is None or t[1:] == want[1:])):
                        cands.append(a)
                else:
                    cands.append(a)
            if len(cands) == 1:
                mapping[nm] = cands[0]
            else:
                raise Unsupported(f"LoopSpec variable {nm} not found in the loop (renamed? candidates {cands})")
        self._rename = mapping
        return mapping

    def havoc(self, st, fr, spec: LoopSpec):
        ex = self.ex
        for nm0, ty in spec.modifies.items():
            nm = getattr(self, "_rename", {}).get(nm0, nm0)
            if "." in nm:
                base, attr = nm.split(".", 1)
                oref = ex.lookup(st, fr, base)
                o = st.heap[oref.id]
                curv = o.get(attr)
                if isinstance(ty, tuple) and ty[0] == "dictset" and isinstance(curv, Ref):
                    _k, key_ty, elem_ty = ty
                    srt = z3.ArraySort(self.m.sort(key_ty), z3.ArraySort(self.m.sort(elem_ty), z3.BoolSort()))
                    arr = z3.Const(f"hv_{attr}!{fresh_id()}", srt)
                    st.created.append(arr)
                    st.undet.append(arr)
                    st.heap[curv.id] = DictObj((), st.heap[curv.id].default_factory, (key_ty, elem_ty, arr))
                    continue
                if isinstance(ty, tuple) and ty[0] in ("list", "set") and isinstance(curv, Ref):
                    fv = ex.fresh(st, "hv_" + attr, ty)
                    st.undet.append(fv.term)
                    st.heap[curv.id] = ListObj(sv=fv) if ty[0] == "list" else SetObj(sv=fv)
                else:
                    fv = ex.fresh(st, "hv_" + attr, ty)
                    st.undet.append(fv.term)
                    st.heap[oref.id] = o.set(attr, fv)
                continue
            cur = ex.lookup(st, fr, nm) if self._has(st, fr, nm) else None
            if isinstance(ty, tuple) and ty[0] in ("list", "set"):
                fv = ex.fresh(st, "hv_" + nm, ty)
                st.undet.append(fv.term)
                obj = ListObj(sv=fv) if ty[0] == "list" else SetObj(sv=fv)
                if isinstance(cur, Ref):
                    st.heap[cur.id] = obj
                else:
                    ex.assign_name(st, fr, nm, st.alloc(obj))
            elif isinstance(ty, tuple) and ty[0] == "dictset":
                # symbolic defaultdict(set): ("dictset", key_ty, elem_ty)
                _k, key_ty, elem_ty = ty
                srt = z3.ArraySort(self.m.sort(key_ty), z3.ArraySort(self.m.sort(elem_ty), z3.BoolSort()))
                arr = z3.Const(f"hv_{nm}!{fresh_id()}", srt)
                st.created.append(arr)
                st.undet.append(arr)
                o = st.heap[cur.id]
                st.heap[cur.id] = DictObj((), o.default_factory, (key_ty, elem_ty, arr))
            elif isinstance(ty, tuple) and ty[0] == "bag":
                o = st.heap[cur.id]
                counts = tuple(z3.Int(f"hv_{nm}_{u}!{fresh_id()}") for u in o.universe)
                st.created.extend(counts)
                st.undet.extend(counts)
                st.heap[cur.id] = BagObj(o.universe, counts)
            else:
                fv = ex.fresh(st, "hv_" + nm, ty)
                st.undet.append(fv.term)
                ex.assign_name(st, fr, nm, fv)

    def _has(self, st, fr, nm):
        try:
            self.ex.lookup(st, fr, nm)
            return True
        except KeyError:
            return False

    def oblige(self, name, st, goal, kind):
        """an invariant may be given as a list of conjuncts: one obligation per conjunct"""
        if isinstance(goal, (list, tuple)):
            for n, g in enumerate(goal):
                self.ex.obligations.append({"name": f"{name}.c{n}", "hyps": list(st.pc), "goal": g, "kind": kind})
            return
        self.ex.obligations.append({"name": name, "hyps": list(st.pc), "goal": goal, "kind": kind})

    @staticmethod
    def _conj(inv_value):
        if isinstance(inv_value, (list, tuple)):
            return z3.And(*inv_value) if len(inv_value) > 1 else inv_value[0]
        return inv_value

    def for_with_invariant(self, node, st, fr, itv, spec: LoopSpec, key):
        ex = self.ex
        out = []
        tag = f"{key[0]}#loop{key[1]}"
        self.resolve_names(spec, node, st, fr)
        k0 = z3.IntVal(0)
        # base sequence
        kk = z3.Int(f"k!{fresh_id()}")
        itv = self.normalize_iter(st, itv)
        pre = st.fork()
        n, elems0 = self.generic_elements(st, fr, itv, kk)
        elem_fn = lambda s, kt: self.generic_elements(s, fr, itv, kt)
        self.oblige(f"{tag}/inv-init", st, spec.inv(LoopCtx(ex, st, fr, k0, n, None, pre)), "inv-init")
        # arbitrary iteration
        s1 = st.fork()
        self.havoc(s1, fr, spec)
        s1.assume(0 <= kk, kk < n)
        s1.created.append(kk)
        s1.assume(self._conj(spec.inv(LoopCtx(ex, s1, fr, kk, n, None, pre))))
        _n, elems = self.generic_elements(s1, fr, itv, kk)
        for s2, v in elems:
            if self._is_raised(v):
                out.append((s2, Outcome("raise", exc=v.exc, info=v.info)))
                continue
            if v is _SKIP:
                self.oblige(f"{tag}/inv-keep", s2, spec.inv(LoopCtx(ex, s2, fr, kk + 1, n, None, pre)), "inv-keep")
                continue
            for s3, o in ex.assign(node.target, v, s2, fr):
                if o.kind != "normal":
                    out.append((s3, o))
                    continue
                for s4, o4 in ex.exec_block(node.body, s3, fr):
                    if o4.kind in ("normal", "continue"):
                        self.oblige(f"{tag}/inv-keep", s4, spec.inv(LoopCtx(ex, s4, fr, kk + 1, n, None, pre)), "inv-keep")
                    elif o4.kind == "break":
                        out.append((s4, NORMAL))
                    else:
                        out.append((s4, o4))
        # after the loop
        s5 = st.fork()
        self.havoc(s5, fr, spec)
        nn = z3.If(n > 0, n, 0)
        s5.assume(self._conj(spec.inv(LoopCtx(ex, s5, fr, nn, n, None, pre))))
        if node.orelse:
            out.extend(ex.exec_block(node.orelse, s5, fr))
        else:
            out.append((s5, NORMAL))
        return out

    def while_loop(self, node, st, fr):
        ex = self.ex
        key = (f"{fr.module}:{fr.qualname}", self.loop_ordinal(fr, node))
        spec = ex.loop_specs.get(key)
        if spec is None:
            return self.while_unroll(node, st, fr, key)
        tag = f"{key[0]}#loop{key[1]}"
        out = []
        self.resolve_names(spec, node, st, fr)
        pre = st.fork()
        self.oblige(f"{tag}/inv-init", st, spec.inv(LoopCtx(ex, st, fr, None, None, None, pre)), "inv-init")
        s1 = st.fork()
        self.havoc(s1, fr, spec)
        s1.assume(self._conj(spec.inv(LoopCtx(ex, s1, fr, None, None, None, pre))))
        for s2, c in ex.ev(node.test, s1, fr):
            if self._is_raised(c):
                out.append((s2, Outcome("raise", exc=c.exc, info=c.info)))
                continue
            for s3, b in ex.branch_value(s2, c):
                if not b:
                    if node.orelse:
                        out.extend(ex.exec_block(node.orelse, s3, fr))
                    else:
                        out.append((s3, NORMAL))
                    continue
                v0 = spec.variant(LoopCtx(ex, s3, fr, None, None, None, pre)) if spec.variant else None
                body_outs = ex.exec_block(node.body, s3, fr)
                if not body_outs:
                    raise Unsupported(f"loop {key}: the body has no outcome from a feasible state (engine imprecision)")
                for s4, o4 in body_outs:
                    if o4.kind in ("normal", "continue"):
                        self.oblige(f"{tag}/inv-keep", s4, spec.inv(LoopCtx(ex, s4, fr, None, None, None, pre)), "inv-keep")
                        if v0 is not None:
                            v1 = spec.variant(LoopCtx(ex, s4, fr, None, None, None, pre))
                            self.oblige(f"{tag}/variant", s4, z3.And(v0 >= 0, v1 < v0), "variant")
                    elif o4.kind == "break":
                        out.append((s4, NORMAL))
                    else:
                        out.append((s4, o4))
        return out

    def while_unroll(self, node, st, fr, key, limit=12):
        """no spec: unroll while the number of iterations is decided by the path condition"""
        ex = self.ex
        out = []
        live = [st]
        for _ in range(limit):
            nxt = []
            for s in live:
                for s2, c in ex.ev(node.test, s, fr):
                    if self._is_raised(c):
                        out.append((s2, Outcome("raise", exc=c.exc, info=c.info)))
                        continue
                    for s3, b in ex.branch_value(s2, c):
                        if not b:
                            out.extend(ex.exec_block(node.orelse, s3, fr) if node.orelse else [(s3, NORMAL)])
                            continue
                        for s4, o4 in ex.exec_block(node.body, s3, fr):
                            if o4.kind in ("normal", "continue"):
                                nxt.append(s4)
                            elif o4.kind == "break":
                                out.append((s4, NORMAL))
                            else:
                                out.append((s4, o4))
            live = nxt
            if not live:
                return out
        raise Unsupported(f"while loop {key} needs a LoopSpec (not finished after {limit} unrollings)")

    # ------------------------------------------------------------------------------------------
    def comprehension(self, node, st, fr, kind):
        ex = self.ex
        if getattr(ex, "functional_lists", False) and kind == "list" and isinstance(node, pyast.ListComp):
            r = self._comprehension_without(node, st, fr)
            if r is not None:
                return r
        # child scope
        eid = st.new_env({"__parent__": fr.env_id})
        from .exec import Frame

        fr2 = Frame(fr.module, fr.qualname, eid, fr.fn, fr.nonlocals, False)
        accname = f"__comp{fresh_id()}"
        st.envs[eid][accname] = st.alloc(ListObj(items=()) if kind == "list" else SetObj(items=()))
        call = pyast.Expr(
            value=pyast.Call(
                func=pyast.Attribute(value=pyast.Name(id=accname, ctx=pyast.Load()), attr="append" if kind == "list" else "add", ctx=pyast.Load()),
                args=[node.elt],
                keywords=[],
            )
        )
        body = [call]
        for gen in reversed(node.generators):
            for cond in reversed(gen.ifs):
                body = [pyast.If(test=cond, body=body, orelse=[])]
            body = [pyast.For(target=gen.target, iter=gen.iter, body=body, orelse=[], lineno=node.lineno, col_offset=node.col_offset)]
        for n in pyast.walk(body[0]):
            if not hasattr(n, "lineno"):
                n.lineno = node.lineno
                n.col_offset = node.col_offset
        res = []
        for s, o in ex.exec_block(body, st, fr2):
            if o.kind == "raise":
                res.append((s, self._raised(o.exc, o.info)))
            elif o.kind == "normal":
                res.append((s, s.envs[eid][accname]))
            else:
                raise Unsupported("control flow out of comprehension")
        return res

    def _comprehension_without(self, node, st, fr):
        """[v for v in L if v != y] over a symbolic list L with y not depending on v: a definitional function"""
        ex = self.ex
        if len(node.generators) != 1:
            return None
        g = node.generators[0]
        if not (isinstance(g.target, pyast.Name) and isinstance(node.elt, pyast.Name) and node.elt.id == g.target.id and len(g.ifs) == 1):
            return None
        c = g.ifs[0]
        if not (isinstance(c, pyast.Compare) and len(c.ops) == 1 and isinstance(c.ops[0], pyast.NotEq) and isinstance(c.left, pyast.Name) and c.left.id == g.target.id):
            return None
        other = c.comparators[0]
        if any(isinstance(n, pyast.Name) and n.id == g.target.id for n in pyast.walk(other)):
            return None
        out = []
        for s, lv in ex.ev(g.iter, st, fr):
            if self._is_raised(lv):
                out.append((s, lv))
                continue
            if ex.B.concrete_items(s, lv) is not None:
                return None
            t = ex.ty_of(s, lv)
            if not (isinstance(t, tuple) and t[0] == "list" and t[1] == "ast"):
                return None
            for s2, yv in ex.ev(other, s, fr):
                if self._is_raised(yv):
                    out.append((s2, yv))
                    continue
                if not (isinstance(yv, SV) and yv.ty == "ast"):
                    return None
                out.append((s2, s2.alloc(ListObj(sv=SV(ex.B.without_term(s2, lv, yv, "ast"), ("list", "ast"))))))
        return out

    def materialize_view(self, st, v, kind):
        ex = self.ex
        eid = st.new_env({})
        from .exec import Frame

        fr2 = Frame("<view>", "<view>", eid)
        st.envs[eid]["__v"] = v
        comp = pyast.ListComp(
            elt=pyast.Name(id="__x", ctx=pyast.Load()),
            generators=[pyast.comprehension(target=pyast.Name(id="__x", ctx=pyast.Store()), iter=pyast.Name(id="__v", ctx=pyast.Load()), ifs=[], is_async=0)],
            lineno=0,
            col_offset=0,
        )
        res = self.comprehension(comp, st, fr2, "list")
        if kind == "tuple":
            out = []
            for s, r in res:
                if isinstance(r, Ref):
                    o = s.heap[r.id]
                    out.append((s, Tup(o.items) if o.items is not None else o.sv))
                else:
                    out.append((s, r))
            return out
        return res

    def map_call(self, st, fr, f, seqs):
        ex = self.ex
        items = [ex.B.concrete_items(st, s) for s in seqs]
        if all(i is not None for i in items):
            res = [(st, [])]
            for tup in zip(*items):
                nxt = []
                for s, acc in res:
                    if self._is_raised(acc):
                        nxt.append((s, acc))
                        continue
                    for s2, v in ex.call(s, fr, f, list(tup), {}):
                        nxt.append((s2, v if self._is_raised(v) else acc + [v]))
                res = nxt
            return [(s, acc if self._is_raised(acc) else s.alloc(ListObj(items=tuple(acc)))) for s, acc in res]
        return [(st, View("map", (f,) + tuple(seqs)))]

    def filter_call(self, st, fr, f, seq):
        ex = self.ex
        items = ex.B.concrete_items(st, seq)
        if items is not None:
            res = [(st, [])]
            for it in items:
                nxt = []
                for s, acc in res:
                    if self._is_raised(acc):
                        nxt.append((s, acc))
                        continue
                    for s2, v in ex.call(s, fr, f, [it], {}):
                        if self._is_raised(v):
                            nxt.append((s2, v))
                            continue
                        for s3, b in ex.branch_value(s2, v):
                            nxt.append((s3, acc + [it] if b else acc))
                res = nxt
            return [(s, acc if self._is_raised(acc) else s.alloc(ListObj(items=tuple(acc)))) for s, acc in res]
        return [(st, View("filter", (f, seq)))]

    def any_all(self, st, fr, name, itv):
        ex = self.ex
        items = ex.B.concrete_items(st, itv)
        if items is not None:
            res = []
            live = [st]
            for it in items:
                nxt = []
                for s in live:
                    for s2, b in ex.branch_value(s, it):
                        if (name == "any") == b:
                            res.append((s2, b))
                        else:
                            nxt.append(s2)
                live = nxt
            for s in live:
                res.append((s, name == "all"))
            return res
        k = z3.Int(f"k!{fresh_id()}")
        itv = self.normalize_iter(st, itv)
        s0 = st.fork()
        base_pc = len(s0.pc)
        base_created = len(s0.created)
        n, elems = self.generic_elements(s0, fr, itv, k)
        truths = []
        for s, v in elems:
            if self._is_raised(v):
                raise Unsupported("any/all over elements whose computation may raise")
            if s.heap.keys() - st.heap.keys() and False:
                pass
            d = s.pc[base_pc:]
            cs = s.created[base_created:]
            if v is _SKIP:
                continue
            t = ex.truth(s, v)
            t = ex.as_z3_bool(t)
            truths.append((d, cs, t))
        rng = z3.And(0 <= k, k < n)
        if name == "any":
            disj = []
            for d, cs, t in truths:
                f = z3.And(*(d + [t]))
                disj.append(z3.Exists(cs, f) if cs else f)
            body = z3.And(rng, z3.Or(*disj)) if disj else z3.BoolVal(False)
            return [(st, ex.B._b(z3.Exists([k], body)))]
        conj = []
        for d, cs, t in truths:
            f = z3.Implies(z3.And(*d), t) if d else t
            conj.append(z3.ForAll(cs, f) if cs else f)
        body = z3.Implies(rng, z3.And(*conj)) if conj else z3.BoolVal(True)
        return [(st, ex.B._b(z3.ForAll([k], body)))]


    def sum_call(self, st, fr, itv):
        """sum(<symbolic sequence of bool / int>): the value is psum(n) of a fresh prefix-sum function psum with
        psum(0) = 0 and psum(k+1) = psum(k) + val(k); the solver gets the definition (no induction), plus the two
        consequences that need induction when every summand is 0 or 1: 0 <= psum(k) <= k and monotonicity.
        Logged as ("sum", result, n, k, val) so that a contract can speak about the summands."""
        ex = self.ex
        k = z3.Int(f"k!{fresh_id()}")
        itv = self.normalize_iter(st, itv)
        s0 = st.fork()
        base_pc = len(s0.pc)
        base_created = len(s0.created)
        n, elems = self.generic_elements(s0, fr, itv, k)
        cases = []
        boolean = True
        for s, v in elems:
            if self._is_raised(v):
                raise Unsupported("sum over elements whose computation may raise")
            if v is _SKIP:
                cases.append((s.pc[base_pc:], z3.IntVal(0)))
                continue
            if s.created[base_created:]:
                raise Unsupported("sum over elements that create objects")
            if isinstance(v, bool):
                t = z3.IntVal(1 if v else 0)
            elif isinstance(v, int):
                t = z3.IntVal(v)
                boolean = boolean and v in (0, 1)
            elif isinstance(v, SV) and v.ty == "bool":
                t = z3.If(v.term, z3.IntVal(1), z3.IntVal(0))
            elif isinstance(v, SV) and v.ty == "int":
                t = v.term
                boolean = False
            else:
                raise Unsupported(f"sum over {v!r}")
            cases.append((s.pc[base_pc:], t))
        val = z3.IntVal(0)
        for d, t in reversed(cases):
            val = z3.If(z3.And(*d), t, val) if d else t
        psum = z3.Function(f"psum!{fresh_id()}", z3.IntSort(), z3.IntSort())
        kk = z3.Int(f"kk!{fresh_id()}")
        valk = z3.substitute(val, (k, kk))
        st.assume(psum(0) == 0)
        st.assume(z3.ForAll([kk], z3.Implies(z3.And(0 <= kk, kk < n), psum(kk + 1) == psum(kk) + valk), patterns=[psum(kk + 1)]))
        if boolean:
            st.assume(z3.ForAll([kk], z3.Implies(z3.And(0 <= kk, kk <= n), z3.And(0 <= psum(kk), psum(kk) <= kk)), patterns=[psum(kk)]))
        res = SV(psum(n), "int")
        st.log.append(("sum", res, n, k, val))
        return [(st, res)]


class _Skip:
    def __repr__(self):
        return "<SKIP>"


_SKIP = _Skip()


class _PoisonObj:
    """heap object standing for an accumulator whose value is not tracked on an early-exit path"""


def exit_paths_break(exit_paths):
    return False
