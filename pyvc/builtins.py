"""Models of Python builtins, container methods, clingo.ast objects and the few stdlib functions ngo uses."""
from __future__ import annotations

import ast as pyast
from typing import Any

import z3

from .model import ty_name

from .state import State, fresh_id
from .values import (
    BagObj,
    Builtin,
    ClassVal,
    DictObj,
    EnumClass,
    Fn,
    ListObj,
    ModuleVal,
    Obj,
    Opaque,
    Partial,
    Ref,
    SetObj,
    SV,
    Tup,
    Unsupported,
    View,
)

BUILTIN_FUNCS = {
    "len",
    "set",
    "frozenset",
    "list",
    "tuple",
    "dict",
    "sorted",
    "reversed",
    "enumerate",
    "zip",
    "range",
    "map",
    "filter",
    "any",
    "all",
    "sum",
    "min",
    "max",
    "next",
    "iter",
    "isinstance",
    "bool",
    "int",
    "str",
    "print",
    "setattr",
    "getattr",
    "hasattr",
    "abs",
    "id",
    "repr",
}
LIST_MUTATORS = {"append", "extend", "insert", "remove", "pop", "clear", "sort", "reverse"}
SET_MUTATORS = {
    "add",
    "update",
    "discard",
    "remove",
    "clear",
    "difference_update",
    "intersection_update",
    "pop",
}


def Raised(exc, info=None):
    from .exec import Raised as R

    return R(exc, info)


def is_raised(v):
    from .exec import Raised as R

    return isinstance(v, R)


from .builtins2 import Methods


class Builtins(Methods):
    def __init__(self, ex):
        self.ex = ex
        self.m = ex.m

    # ------------------------------------------------------------------------------------------
    def builtin_name(self, name):
        from .exec import EXC_CLASSES

        if name in BUILTIN_FUNCS:
            return Builtin(name)
        if name in EXC_CLASSES or name.endswith("Error"):
            return ClassVal("builtins", name)
        if name == "NotImplemented":
            return Opaque("NotImplemented")
        raise KeyError(name)

    def external(self, src, name):
        if src == "itertools" and name in ("chain", "combinations", "permutations", "product", "pairwise"):
            return Builtin("itertools." + name)
        if src == "functools" and name == "partial":
            return Builtin("functools.partial")
        if src == "functools" and name == "cache":
            return Opaque("functools.cache")
        if src == "collections" and name == "defaultdict":
            return Builtin("collections.defaultdict")
        if src == "copy" and name == "deepcopy":
            return Builtin("copy.deepcopy")
        if src == "typing" or src == "dataclasses" or src == "textwrap":
            return Opaque(f"{src}.{name}")
        if src == "importlib":
            return Opaque(f"{src}.{name}")
        return Opaque(f"{src}.{name}")

    def is_logging_call(self, node, st, fr):
        f = node.func
        if isinstance(f, pyast.Attribute) and isinstance(f.value, pyast.Name):
            if f.value.id in ("log", "logging") and f.attr in ("info", "debug", "warning", "error"):
                return True
        return False

    # ------------------------------------------------------------------------------------------
    # attribute access
    def getattr(self, st, fr, v, attr):
        ex, m = self.ex, self.m
        if isinstance(v, SV):
            t = v.ty
            if t == "ast":
                return self.ast_getattr(st, v, attr)
            if isinstance(t, tuple) and t[0] == "rec":
                sort, fields = m.records[t[1]]
                for fname, fty in fields:
                    if fname == attr:
                        return [(st, SV(m.rec_acc(t[1], fname)(v.term), fty))]
                return [(st, Raised("AttributeError", attr))]
            if t == "sym":
                S = m.Sym
                if attr == "type":
                    return [(st, SV(m.sym_type(v.term), ("enum", "SymbolType")))]
                if attr == "number":
                    out = []
                    for s2, b in ex.branch(st, S.is_SymNumber(v.term)):
                        if b:
                            out.append((s2, SV(S.sym_number(v.term), "int")))
                        else:
                            out.append((s2, Raised("RuntimeError", "symbol.number on non-number")))
                    return out
                if attr == "name":
                    return [(st, SV(S.sym_name(v.term), "str"))]
                if attr == "string":
                    return [(st, SV(S.sym_string(v.term), "str"))]
                raise Unsupported(f"Symbol.{attr}")
            if isinstance(t, tuple) and t[0] == "enum":
                raise Unsupported(f"attribute {attr} of enum value")
            # methods on symbolic list/set/str values
            return [(st, Builtin("method:" + attr, v))]
        if isinstance(v, Ref):
            o = st.heap[v.id]
            if isinstance(o, Obj):
                if o.has(attr):
                    return [(st, o.get(attr))]
                meth = self.find_method(o.cls, attr)
                if meth is not None:
                    return [(st, meth if meth.is_static else Fn(meth.node, meth.module, meth.qualname, None, v, meth.cls))]
                return [(st, Raised("AttributeError", f"{o.cls}.{attr}"))]
            return [(st, Builtin("method:" + attr, v))]
        if isinstance(v, EnumClass):
            if attr in self.m.enums[v.name][1]:
                return [(st, SV(self.m.enum(v.name, attr), ("enum", v.name)))]
            return [(st, Raised("AttributeError", attr))]
        if isinstance(v, ClassVal):
            if v.module not in ("builtins", "clingo.ast", "argparse"):
                meth = self.find_method(v.name, attr, v.module)
                if meth is not None:
                    return [(st, meth)]
            if v.module == "builtins" and v.name == "str" and attr in ("lower", "upper"):
                return [(st, Builtin("str." + attr))]
            if v.module == "builtins" and v.name == "set" and attr in ("union",):
                return [(st, Builtin("set." + attr))]
            raise Unsupported(f"class attribute {v.name}.{attr}")
        if isinstance(v, ModuleVal):
            if v.name.startswith("ngo"):
                return [(st, ex.external_name(st, v.name, attr))]
            if v.name == "logging":
                return [(st, Builtin("logging." + attr))]
            if v.name == "sys":
                return [(st, Opaque("sys." + attr))]
            if v.name == "nx":
                return [(st, Builtin("nx." + attr))]
            return [(st, Opaque(v.name + "." + attr))]
        if isinstance(v, Tup):
            return [(st, Builtin("method:" + attr, v))]
        if isinstance(v, str):
            return [(st, Builtin("method:" + attr, v))]
        if isinstance(v, Builtin) and v.name in ("set", "str", "list"):
            return [(st, Builtin(v.name + "." + attr))]
        if isinstance(v, Opaque):
            return [(st, Opaque(v.name + "." + attr))]
        if v is None:
            return [(st, Raised("AttributeError", f"NoneType.{attr}"))]
        raise Unsupported(f"getattr on {v!r}.{attr}")

    def find_method(self, cls, name, module=None):
        ex = self.ex
        if module:
            mods = [module]
        else:
            # classes of any ngo module (loaded on demand)
            import os

            mods = list(ex._modules)
            root = os.path.join(ex.src_root, "ngo")
            for dp, _dn, fns in os.walk(root):
                for fn in sorted(fns):
                    if fn.endswith(".py") and fn != "__init__.py":
                        rel = os.path.relpath(os.path.join(dp, fn), ex.src_root)[:-3].replace(os.sep, ".")
                        if rel not in mods:
                            mods.append(rel)
        for mod in mods:
            ex.load_module(mod)
            b = ex._bindings[mod].get(cls)
            if isinstance(b, pyast.ClassDef):
                for n in b.body:
                    if isinstance(n, pyast.FunctionDef) and n.name == name:
                        static = any(isinstance(d, pyast.Name) and d.id == "staticmethod" for d in n.decorator_list)
                        return Fn(n, mod, f"{cls}.{name}", None, None, cls, static)
        return None

    def ast_field(self, x, fname, want_ty=None, st=None):
        """(value term as nested If over constructors having the field with type ty, ok condition)
        returns list of (ty, term, cond) grouped by field type"""
        m = self.m
        cands = m.field_index.get(fname, [])
        if st is not None and x.get_id() in st.ctor:
            known = st.ctor[x.get_id()][1]
            cands = [(c, t) for c, t in cands if c == known]
            if cands:
                c, ty = cands[0]
                return [(ty, m.acc(c, fname)(x), True)]
        groups: dict[Any, list[str]] = {}
        for cname, ty in cands:
            groups.setdefault(ty, []).append(cname)
        out = []
        for ty, cnames in groups.items():
            term = m.acc(cnames[-1], fname)(x)
            for c in reversed(cnames[:-1]):
                term = z3.If(m.is_ctor(c, x), m.acc(c, fname)(x), term)
            cond = z3.Or(*[m.is_ctor(c, x) for c in cnames]) if len(cnames) > 1 else m.is_ctor(cnames[0], x)
            out.append((ty, term, cond))
        return out

    def ast_getattr(self, st, v, attr):
        ex, m = self.ex, self.m
        x = v.term
        if attr == "ast_type":
            out = []
            for s2, b in ex.branch(st, x != m.NoneAST):
                if b:
                    out.append((s2, SV(m.ast_type(x), ("enum", "ASTType"))))
                else:
                    out.append((s2, Raised("AttributeError", "NoneType.ast_type")))
            return out
        if attr in ("update", "unpool", "keys", "items", "values"):
            return [(st, Builtin("method:" + attr, v))]
        if attr == "location":
            return [(st, Opaque("location"))]
        if getattr(ex, "resolve_ctors", False) and x.get_id() not in st.ctor:
            # opt-in: decide the constructor of x from the path condition (well-formedness facts) instead of
            # carrying an If-chain over every constructor that has this field
            cands = m.field_index.get(attr, [])
            if len(cands) > 1:
                for cname, _ty in cands:
                    if ex.valid(st, m.is_ctor(cname, x)):
                        st.ctor[x.get_id()] = (x, cname)
                        break
        groups = self.ast_field(x, attr, st=st)
        if not groups:
            return [(st, Raised("AttributeError", attr))]
        out = []
        if len(groups) == 1 and groups[0][2] is True:
            return [(st, SV(groups[0][1], groups[0][0]))]
        if len(groups) == 1:
            ty, term, cond = groups[0]
            for s2, b in ex.branch(st, cond):
                if b:
                    out.append((s2, SV(z3.simplify(term), ty)))
                else:
                    out.append((s2, Raised("AttributeError", f"AST.{attr}")))
            return out
        any_cond = z3.Or(*[c for _, _, c in groups])
        for ty, term, cond in groups:
            for s2, b in ex.branch(st.fork(), cond):
                if b:
                    out.append((s2, SV(z3.simplify(term), ty)))
        for s2, b in ex.branch(st, any_cond):
            if not b:
                out.append((s2, Raised("AttributeError", f"AST.{attr}")))
        return out

    def ast_update(self, st, v, kwargs):
        ex, m = self.ex, self.m
        x = v.term
        names = set(kwargs)
        cands = [c for c in m.ctor_names if names <= {f["name"] for f in m.fields[c]}]
        if x.get_id() in st.ctor:
            cands = [c for c in cands if c == st.ctor[x.get_id()][1]]
        if not cands:
            return [(st, Raised("AttributeError", f"update({sorted(names)})"))]
        # convert the new values per candidate (types may differ between candidates: group)
        built = []
        for c in cands:
            try:
                args = []
                s_tmp = st
                for f in m.fields[c]:
                    if f["name"] in kwargs:
                        args.append(ex.to_term(s_tmp, kwargs[f["name"]], f["ty"]))
                    else:
                        args.append(m.acc(c, f["name"])(x))
                built.append((c, m.ctor(c)(*args)))
            except Unsupported:
                continue
        if not built:
            raise Unsupported(f"update({sorted(names)}): no constructor accepts the given value types")
        term = built[-1][1]
        for c, t in reversed(built[:-1]):
            term = z3.If(m.is_ctor(c, x), t, term)
        cond = z3.Or(*[m.is_ctor(c, x) for c, _ in built]) if len(built) > 1 else m.is_ctor(built[0][0], x)
        out = []
        for s2, b in ex.branch(st, cond):
            if b:
                out.append((s2, SV(term, "ast")))
            else:
                out.append((s2, Raised("AttributeError", f"AST.update({sorted(names)})")))
        return out

    def setattr(self, st, obj, attr, v):
        if isinstance(obj, Ref):
            o = st.heap[obj.id]
            if isinstance(o, Obj):
                st.heap[obj.id] = o.set(attr, v)
                return [(st, None)]
        raise Unsupported(f"attribute assignment on {obj!r}")

    # ------------------------------------------------------------------------------------------
    # instantiation
    def instantiate(self, st, fr, c: ClassVal, args, kwargs):
        ex, m = self.ex, self.m
        if c.module == "clingo.ast":
            if c.name not in m.fields:
                raise Unsupported(f"clingo.ast.{c.name}()")
            sig = [s["name"] for s in m.schema["signatures"][c.name]]
            vals = dict(zip(sig, args))
            vals.update(kwargs)
            targs = []
            for f in m.fields[c.name]:
                if f["name"] not in vals:
                    return [(st, Raised("TypeError", f"{c.name}: missing {f['name']}"))]
                targs.append(ex.to_term(st, vals[f["name"]], f["ty"]))
            return [(st, SV(m.ctor(c.name)(*targs), "ast"))]
        if c.name in m.records:
            sort, fields = m.records[c.name]
            vals = dict(zip([f for f, _ in fields], args))
            vals.update(kwargs)
            targs = [ex.to_term(st, vals[f], t) for f, t in fields]
            return [(st, SV(m.rec_ctor(c.name)(*targs), ("rec", c.name)))]
        if c.module == "builtins":
            # exception instance
            return [(st, Opaque("exception:" + c.name))]
        if not c.module.startswith("ngo"):
            # class of an external library (argparse.ArgumentParser ...): an uninterpreted, ghost-logged call
            return ex.call(st, fr, Opaque(f"{c.module}.{c.name}"), args, kwargs)
        # repo class
        init = self.find_method(c.name, "__init__", c.module)
        ref = st.alloc(Obj(c.name, ()))
        if init is None:
            return [(st, ref)]
        bound = Fn(init.node, init.module, init.qualname, None, ref, c.name)
        return ex.bind(ex.call_fn(st, bound, args, kwargs), lambda s, _v: [(s, ref)])

    # ------------------------------------------------------------------------------------------
    # strings
    def to_str(self, st, v):
        m = self.m
        if isinstance(v, str):
            return v
        if isinstance(v, bool):
            return str(v)
        if isinstance(v, int):
            return str(v)
        if isinstance(v, SV):
            if v.ty == "str":
                return v
            if v.ty == "int":
                return SV(m.str_of_int(v.term), "str")
            f = self.ex.ufunc("str_of_" + _tyname(v.ty), [m.sort(v.ty)], m.Str)
            return SV(f(v.term), "str")
        if isinstance(v, Ref) or isinstance(v, Tup) or v is None or isinstance(v, Opaque):
            return SV(z3.Const(f"strof!{fresh_id()}", m.Str), "str")
        raise Unsupported(f"str() of {v!r}")

    def str_concat(self, st, a, b):
        if isinstance(a, str) and isinstance(b, str):
            return a + b
        m = self.m
        if isinstance(a, str) and a == "":
            return b
        if isinstance(b, str) and b == "":
            return a
        return SV(m.str_concat(self.ex.to_term(st, a, "str"), self.ex.to_term(st, b, "str")), "str")

    # ------------------------------------------------------------------------------------------
    # sequences
    def concrete_items(self, st, v):
        """python list of items if the spine of v is concrete, else None"""
        if isinstance(v, Tup):
            return list(v.items)
        if isinstance(v, Ref):
            self.ex.check_read(v)
            o = st.heap[v.id]
            if isinstance(o, ListObj) and o.items is not None:
                return list(o.items)
            if isinstance(o, SetObj) and o.items is not None:
                return list(o.items)
            if isinstance(o, DictObj) and o.sym is None:
                return [k for k, _ in o.items]
            return None
        if isinstance(v, View):
            return self.view_items(st, v)
        if isinstance(v, str):
            return list(v)
        return None

    def view_items(self, st, v: View):
        k = v.kind
        if k == "range":
            lo, hi = v.args
            if isinstance(lo, int) and isinstance(hi, int):
                return list(range(lo, hi))
            return None
        if k == "enumerate":
            its = self.concrete_items(st, v.args[0])
            if its is None:
                return None
            start = v.args[1]
            return [Tup((i + start, x)) for i, x in enumerate(its)]
        if k == "zip":
            seqs = [self.concrete_items(st, a) for a in v.args]
            if any(s is None for s in seqs):
                return None
            return [Tup(tuple(t)) for t in zip(*seqs)]
        if k == "reversed":
            its = self.concrete_items(st, v.args[0])
            return None if its is None else list(reversed(its))
        if k == "chain":
            out = []
            for a in v.args:
                its = self.concrete_items(st, a)
                if its is None:
                    return None
                out.extend(its)
            return out
        return None

    def seq_access(self, st, v):
        """symbolic sequence access: (n_term, elem(k)->value, elem_ty) or None.
        elem(k) returns a python-side value (SV or Tup of SVs) for a z3 Int index k."""
        ex, m = self.ex, self.m
        if isinstance(v, SV) and isinstance(v.ty, tuple) and v.ty[0] == "list":
            et = v.ty[1]
            ln, at = m.lst_funcs(et)
            return (ln(v.term), lambda k: SV(at(v.term, k), et), et)
        if isinstance(v, Ref):
            self.ex.check_read(v)
            o = st.heap[v.id]
            if isinstance(o, ListObj):
                if o.sv is not None:
                    return self.seq_access(st, o.sv)
                if o.items:
                    et = ex.ty_of(st, o.items[0])
                    return self.seq_access(st, ex.lift_list(st, o.items, et))
                return (z3.IntVal(0), lambda k: None, None)
            return None
        if isinstance(v, Tup):
            if not v.items:
                return (z3.IntVal(0), lambda k: None, None)
            et = ex.ty_of(st, v.items[0])
            return self.seq_access(st, ex.lift_list(st, v.items, et))
        if isinstance(v, View):
            if v.kind == "enumerate":
                a = self.seq_access(st, v.args[0])
                if a is None:
                    return None
                n, el, et = a
                start = v.args[1]
                return (n, lambda k: Tup((SV(k + start, "int"), el(k))), ("tuple", "int", et))
            if v.kind == "zip":
                accs = [self.seq_access(st, a) for a in v.args]
                if any(a is None for a in accs):
                    return None
                n = accs[0][0]
                for a in accs[1:]:
                    n = z3.If(a[0] < n, a[0], n)
                return (n, lambda k: Tup(tuple(a[1](k) for a in accs)), ("tuple",) + tuple(a[2] for a in accs))
            if v.kind == "perm2":
                a = self.seq_access(st, v.args[0])
                if a is None:
                    return None
                n0, el0, et0 = a
                if et0 is None:
                    return (z3.IntVal(0), lambda k: None, None)
                tag = fresh_id()
                fi = z3.Function(f"perm_i!{tag}", z3.IntSort(), z3.IntSort())
                fj = z3.Function(f"perm_j!{tag}", z3.IntSort(), z3.IntSort())
                N = z3.Int(f"perm_n!{tag}")
                st.created.append(N)
                kq, aq, bq = z3.Int(f"k!pm{tag}"), z3.Int(f"a!pm{tag}"), z3.Int(f"b!pm{tag}")
                st.assume(N >= 0, (N == 0) == (n0 < 2))
                st.assume(z3.ForAll([kq], z3.Implies(z3.And(0 <= kq, kq < N), z3.And(0 <= fi(kq), fi(kq) < n0, 0 <= fj(kq), fj(kq) < n0, fi(kq) != fj(kq))), patterns=[fi(kq)]))
                st.assume(z3.ForAll([aq, bq], z3.Implies(z3.And(0 <= aq, aq < n0, 0 <= bq, bq < n0, aq != bq), z3.Exists([kq], z3.And(0 <= kq, kq < N, fi(kq) == aq, fj(kq) == bq)))))
                return (N, lambda k: Tup((el0(fi(k)), el0(fj(k)))), ("tuple", et0, et0))
            if v.kind == "chain":
                accs = [self.seq_access(st, a) for a in v.args]
                if any(a is None for a in accs):
                    return None
                accs = [a for a in accs if a[2] is not None]
                if not accs:
                    return (z3.IntVal(0), lambda k: None, None)
                if len({str(a[2]) for a in accs}) != 1 or not all(isinstance(a[1](z3.IntVal(0)), SV) for a in accs):
                    return None
                et = accs[0][2]

                def el(k, accs=accs):
                    off = z3.IntVal(0)
                    term = None
                    # nested If over the parts, last part as default
                    offs = []
                    for a in accs:
                        offs.append(off)
                        off = off + a[0]
                    term = accs[-1][1](k - offs[-1]).term
                    for a, o in reversed(list(zip(accs[:-1], offs[:-1]))):
                        term = z3.If(k < o + a[0], a[1](k - o).term, term)
                    return SV(term, et)

                total = z3.IntVal(0)
                for a in accs:
                    total = total + a[0]
                return (total, el, et)
            if v.kind == "range":
                lo, hi = v.args
                lo_t = ex.to_term(st, lo, "int")
                hi_t = ex.to_term(st, hi, "int")
                n = z3.If(hi_t > lo_t, hi_t - lo_t, 0)
                return (n, lambda k: SV(lo_t + k, "int"), "int")
        return None

    def dedupe(self, st, vals):
        out = []
        for v in vals:
            if not any(self.ex.eq(st, v, w) is True for w in out):
                out.append(v)
        return tuple(out)

    def concat_parts(self, st, parts):
        """build a symbolic list from concrete/symbolic parts: [("items", [..]) | ("sym", value)]"""
        ex, m = self.ex, self.m
        et = None
        for k, p in parts:
            if k == "sym":
                et = ex.ty_of(st, p)[1]
            elif p:
                et = et or ex.ty_of(st, p[0])
        if getattr(ex, "functional_lists", False) and et is not None:
            return st.alloc(ListObj(sv=SV(self.concat_term(st, parts, et), ("list", et))))
        res = ex.fresh(st, "cat", ("list", et))
        ln, at = m.lst_funcs(et)
        off = z3.IntVal(0)
        for k, p in parts:
            if k == "items":
                for it in p:
                    st.assume(at(res.term, off) == ex.to_term(st, it, et))
                    off = z3.simplify(off + 1)
            else:
                t = ex.to_term(st, p, ("list", et))
                j = z3.Int(f"j!cat{fresh_id()}")
                body = z3.Implies(z3.And(0 <= j, j < ln(t)), at(res.term, off + j) == at(t, j))
                try:
                    st.assume(z3.ForAll([j], body, patterns=[at(t, j)]))
                except z3.Z3Exception:  # e.g. `if` inside the pattern term
                    st.assume(z3.ForAll([j], body))
                off = off + ln(t)
        st.assume(ln(res.term) == off)
        return st.alloc(ListObj(sv=res))

    def list_algebra(self, et):
        """nil / cons / cat2 over lists of et as definitional functions (global axioms, E-matching patterns)"""
        ex, m = self.ex, self.m
        key = ty_name(et)
        ls, es = m.sort(("list", et)), m.sort(et)
        first = f"cons_{key}" not in ex.ufuncs
        nil = z3.Const(f"nil_{key}", ls)
        cons = ex.ufunc(f"cons_{key}", [es, ls], ls)
        cat2 = ex.ufunc(f"cat2_{key}", [ls, ls], ls)
        if first:
            ln, at = m.lst_funcs(et)
            x_, a_, b_, j_ = z3.Const("x!la", es), z3.Const("a!la", ls), z3.Const("b!la", ls), z3.Int("j!la")
            ax = m.global_axioms
            ax.append(ln(nil) == 0)
            ax.append(z3.ForAll([x_, a_], z3.And(ln(cons(x_, a_)) == 1 + ln(a_), at(cons(x_, a_), 0) == x_), patterns=[cons(x_, a_)]))
            ax.append(z3.ForAll([x_, a_, j_], z3.Implies(z3.And(1 <= j_, j_ <= ln(a_)), at(cons(x_, a_), j_) == at(a_, j_ - 1)), patterns=[at(cons(x_, a_), j_)]))
            ax.append(z3.ForAll([a_, b_], ln(cat2(a_, b_)) == ln(a_) + ln(b_), patterns=[cat2(a_, b_)]))
            ax.append(
                z3.ForAll(
                    [a_, b_, j_],
                    z3.And(
                        z3.Implies(z3.And(0 <= j_, j_ < ln(a_)), at(cat2(a_, b_), j_) == at(a_, j_)),
                        z3.Implies(z3.And(ln(a_) <= j_, j_ < ln(a_) + ln(b_)), at(cat2(a_, b_), j_) == at(b_, j_ - ln(a_))),
                    ),
                    patterns=[at(cat2(a_, b_), j_)],
                )
            )
            # the same facts, triggered by a known element of a part (so that `exists position` goals find their witness)
            ax.append(z3.ForAll([a_, b_, j_], z3.Implies(z3.And(0 <= j_, j_ < ln(a_)), at(cat2(a_, b_), j_) == at(a_, j_)), patterns=[z3.MultiPattern(cat2(a_, b_), at(a_, j_))]))
            ax.append(z3.ForAll([a_, b_, j_], z3.Implies(z3.And(0 <= j_, j_ < ln(b_)), at(cat2(a_, b_), ln(a_) + j_) == at(b_, j_)), patterns=[z3.MultiPattern(cat2(a_, b_), at(b_, j_))]))
            ax.append(z3.ForAll([x_, a_, j_], z3.Implies(z3.And(0 <= j_, j_ < ln(a_)), at(cons(x_, a_), j_ + 1) == at(a_, j_)), patterns=[z3.MultiPattern(cons(x_, a_), at(a_, j_))]))
        return nil, cons, cat2

    def without_term(self, st, lst, y, et):
        """[v for v in lst if v != y] as a definitional function of (lst, y)"""
        ex, m = self.ex, self.m
        key = f"without_{ty_name(et)}"
        first = key not in ex.ufuncs
        ls, es = m.sort(("list", et)), m.sort(et)
        f = ex.ufunc(key, [ls, es], ls)
        if first:
            ln, at = m.lst_funcs(et)
            l_, y_, j_, i_ = z3.Const("l!wo", ls), z3.Const("y!wo", es), z3.Int("j!wo"), z3.Int("i!wo")
            ax = m.global_axioms
            ax.append(z3.ForAll([l_, y_], ln(f(l_, y_)) <= ln(l_), patterns=[f(l_, y_)]))
            ax.append(z3.ForAll([l_, y_, j_], z3.Implies(z3.And(0 <= j_, j_ < ln(f(l_, y_))), z3.And(at(f(l_, y_), j_) != y_, z3.Exists([i_], z3.And(0 <= i_, i_ < ln(l_), at(l_, i_) == at(f(l_, y_), j_))))), patterns=[at(f(l_, y_), j_)]))
            ax.append(z3.ForAll([l_, y_, i_], z3.Implies(z3.And(0 <= i_, i_ < ln(l_), at(l_, i_) != y_), z3.Exists([j_], z3.And(0 <= j_, j_ < ln(f(l_, y_)), at(f(l_, y_), j_) == at(l_, i_)))), patterns=[z3.MultiPattern(f(l_, y_), at(l_, i_))]))
        return f(ex.to_term(st, lst, ("list", et)), ex.to_term(st, y, et))

    def concat_term(self, st, parts, et):
        ex = self.ex
        nil, cons, cat2 = self.list_algebra(et)
        t = None
        for k, p in reversed(list(parts)):
            if k == "sym":
                pt = ex.to_term(st, p, ("list", et))
                t = pt if t is None else cat2(pt, t)
            else:
                for it in reversed(list(p)):
                    t = cons(ex.to_term(st, it, et), nil if t is None else t)
        return nil if t is None else t

    def unpack_symbolic(self, st, v, n):
        m = self.m
        if isinstance(v, SV) and isinstance(v.ty, tuple) and v.ty[0] == "tuple":
            _s, _mk, accs = m.tuple_parts(v.ty)
            if len(accs) != n:
                return Raised("ValueError", "unpack")
            return [SV(a(v.term), t) for a, t in zip(accs, v.ty[1:])]
        raise Unsupported(f"unpacking of {v!r}")

    # ------------------------------------------------------------------------------------------
    def getitem(self, st, o, idx):
        ex, m = self.ex, self.m
        if isinstance(o, Tup) or (isinstance(o, Ref) and isinstance(st.heap[o.id], ListObj) and st.heap[o.id].items is not None):
            items = self.concrete_items(st, o)
            if isinstance(idx, int):
                if -len(items) <= idx < len(items):
                    return [(st, items[idx])]
                return [(st, Raised("IndexError", idx))]
            if isinstance(idx, SV) and idx.ty == "int":
                # symbolic index into concrete list: fork over positions
                out = []
                for i, it in enumerate(items):
                    for s2, b in ex.branch(st.fork(), idx.term == i):
                        if b:
                            out.append((s2, it))
                for s2, b in ex.branch(st, z3.And(idx.term >= -len(items), idx.term < len(items))):
                    if not b:
                        out.append((s2, Raised("IndexError", "symbolic")))
                    # negative indices into concrete lists with symbolic index: unsupported precision
                return out
        sv = None
        if isinstance(o, SV) and isinstance(o.ty, tuple) and o.ty[0] == "list":
            sv = o
        elif isinstance(o, Ref) and isinstance(st.heap[o.id], ListObj):
            sv = st.heap[o.id].sv
        if sv is not None:
            et = sv.ty[1]
            ln, at = m.lst_funcs(et)
            i = ex.to_term(st, idx, "int")
            n = ln(sv.term)
            out = []
            inb = z3.And(0 <= i, i < n)
            neg = z3.And(i < 0, -n <= i)
            for s2, b in ex.branch(st.fork(), inb):
                if b:
                    out.append((s2, SV(at(sv.term, i), et)))
            for s2, b in ex.branch(st.fork(), neg):
                if b:
                    out.append((s2, SV(at(sv.term, n + i), et)))
            for s2, b in ex.branch(st, z3.Or(inb, neg)):
                if not b:
                    out.append((s2, Raised("IndexError", "list index")))
            return out
        if isinstance(o, Ref) and isinstance(st.heap[o.id], DictObj):
            return self.dict_get(st, o, idx, None, raise_missing=True)
        if isinstance(o, SV) and isinstance(o.ty, tuple) and o.ty[0] == "tuple" and isinstance(idx, int):
            _s, _mk, accs = m.tuple_parts(o.ty)
            return [(st, SV(accs[idx](o.term), o.ty[1 + idx]))]
        if isinstance(o, Opaque):
            return [(st, Opaque(o.name + "[]"))]
        raise Unsupported(f"subscript of {o!r}")

    def dict_get(self, st, dref, key, default, raise_missing=False):
        ex = self.ex
        d = st.heap[dref.id]
        if d.sym is not None:
            key_ty, elem_ty, arr = d.sym
            kt = ex.to_term(st, key, key_ty)
            bucket = SetObj(sv=SV(z3.Select(arr, kt), ("set", elem_ty)), parent=(dref.id, key))
            return [(st, st.alloc(bucket))]
        if d.default_factory == "set" and not d.items and isinstance(key, SV) and raise_missing and not (z3.is_const(key.term) and key.term.decl().kind() == z3.Z3_OP_DT_CONSTRUCTOR):
            # first access of an empty defaultdict(set) with a symbolic key: the bucket is a view that turns the
            # dict into a symbolic map (key -> set) on its first mutation
            return [(st, st.alloc(SetObj(items=(), parent=(dref.id, key))))]
        out = []
        rest = st
        # if key concrete-equal to one entry: direct
        conds = []
        for k, v in d.items:
            c = ex.eq(rest, key, k)
            if c is True:
                return out + [(rest, v)]
            if c is False:
                continue
            conds.append((c, v))
        # merge with ite when all values are SVs of the same type
        vals = [v for _, v in conds]
        if conds and all(isinstance(v, SV) for v in vals) and len({ty for ty in (v.ty for v in vals)}) == 1:
            anyc = z3.Or(*[c for c, _ in conds]) if len(conds) > 1 else conds[0][0]
            term = vals[-1].term
            for c, v in reversed(conds[:-1]):
                term = z3.If(c, v.term, term)
            for s2, b in ex.branch(rest, anyc):
                if b:
                    out.append((s2, SV(term, vals[0].ty)))
                else:
                    out.extend(self._dict_missing(s2, dref, key, default, raise_missing))
            return out
        for c, v in conds:
            brs = ex.branch(rest, c)
            nxt = None
            for s2, b in brs:
                if b:
                    out.append((s2, v))
                else:
                    nxt = s2
            if nxt is None:
                return out
            rest = nxt
        out.extend(self._dict_missing(rest, dref, key, default, raise_missing))
        return out

    def _dict_missing(self, st, dref, key, default, raise_missing):
        d = st.heap[dref.id]
        if d.default_factory is not None and raise_missing:
            if d.default_factory == "set":
                v = st.alloc(SetObj(items=()))
            elif d.default_factory == "list":
                v = st.alloc(ListObj(items=()))
            else:
                raise Unsupported("defaultdict factory")
            st.heap[dref.id] = DictObj(d.items + ((key, v),), d.default_factory)
            if dref.id in self.ex.L.write_only:
                self.ex.L.write_only.add(v.id)  # buckets of a write-only accumulator dict are write-only too
            return [(st, v)]
        if raise_missing:
            return [(st, Raised("KeyError", "dict"))]
        return [(st, default)]

    def setitem(self, st, o, idx, v):
        ex = self.ex
        if isinstance(o, Ref):
            obj = st.heap[o.id]
            if isinstance(obj, ListObj) and obj.items is not None and isinstance(idx, int):
                if not -len(obj.items) <= idx < len(obj.items):
                    return [(st, Raised("IndexError", idx))]
                items = list(obj.items)
                items[idx] = v
                st.heap[o.id] = ListObj(items=tuple(items))
                return [(st, None)]
            if isinstance(obj, DictObj) and obj.sym is None:
                items = []
                found = False
                for k, val in obj.items:
                    c = ex.eq(st, idx, k)
                    if not isinstance(c, bool):
                        if ex.valid(st, c):
                            c = True
                        elif ex.valid(st, z3.Not(c)):
                            c = False
                    if c is True:
                        items.append((k, v))
                        found = True
                    elif c is False:
                        items.append((k, val))
                    else:
                        raise Unsupported("dict store with symbolic key aliasing")
                if not found:
                    items.append((idx, v))
                st.heap[o.id] = DictObj(tuple(items), obj.default_factory)
                return [(st, None)]
        raise Unsupported(f"item assignment on {o!r}")

    def slice(self, st, o, lo, hi, step):
        items = self.concrete_items(st, o)
        if items is not None and all(x is None or isinstance(x, int) for x in (lo, hi, step)):
            res = items[slice(lo, hi, step)]
            if isinstance(o, Tup):
                return [(st, Tup(tuple(res)))]
            return [(st, st.alloc(ListObj(items=tuple(res))))]
        def _nonneg(x):
            return (isinstance(x, int) and x >= 0) or (isinstance(x, SV) and x.ty == "int" and self.ex.valid(st, x.term >= 0))

        if items is None and lo in (None, 0) and hi is not None and step is None and _nonneg(hi):
            # l[:hi] of a symbolic sequence, hi >= 0: a definitional function of (l, hi)
            ex, m = self.ex, self.m
            t = ex.ty_of(st, o)
            if isinstance(t, tuple) and t[0] == "list" and t[1] is not None:
                et = t[1]
                key = f"slice_to_{ty_name(et)}"
                first = key not in ex.ufuncs
                ls = m.sort(("list", et))
                f = ex.ufunc(key, [ls, z3.IntSort()], ls)
                if first:
                    ln, at = m.lst_funcs(et)
                    l_, a_, j_ = z3.Const("l!slt", ls), z3.Int("a!slt"), z3.Int("j!slt")
                    m.global_axioms.append(z3.ForAll([l_, a_], z3.Implies(a_ >= 0, ln(f(l_, a_)) == z3.If(a_ < ln(l_), a_, ln(l_))), patterns=[f(l_, a_)]))
                    m.global_axioms.append(z3.ForAll([l_, a_, j_], z3.Implies(z3.And(0 <= j_, j_ < a_, j_ < ln(l_)), at(f(l_, a_), j_) == at(l_, j_)), patterns=[at(f(l_, a_), j_)]))
                    m.global_axioms.append(z3.ForAll([l_, a_, j_], z3.Implies(z3.And(0 <= j_, j_ < a_, j_ < ln(l_)), at(f(l_, a_), j_) == at(l_, j_)), patterns=[z3.MultiPattern(f(l_, a_), at(l_, j_))]))
                return [(st, st.alloc(ListObj(sv=SV(f(ex.to_term(st, o, ("list", et)), ex.to_term(st, hi, "int")), ("list", et)))))]
        if items is None and lo is not None and _nonneg(lo) and hi is None and step is None:
            # l[lo:] of a symbolic sequence, lo >= 0: a definitional function of (l, lo) (global axioms, no fresh constant)
            ex, m = self.ex, self.m
            t = ex.ty_of(st, o)
            if isinstance(t, tuple) and t[0] == "list" and t[1] is not None:
                et = t[1]
                key = f"slice_from_{ty_name(et)}"
                first = key not in ex.ufuncs
                ls = m.sort(("list", et))
                f = ex.ufunc(key, [ls, z3.IntSort()], ls)
                if first:
                    ln, at = m.lst_funcs(et)
                    l_, a_, j_ = z3.Const("l!slc", ls), z3.Int("a!slc"), z3.Int("j!slc")
                    m.global_axioms.append(z3.ForAll([l_, a_], ln(f(l_, a_)) == z3.If(ln(l_) - a_ > 0, ln(l_) - a_, 0), patterns=[f(l_, a_)]))
                    m.global_axioms.append(z3.ForAll([l_, a_, j_], z3.Implies(z3.And(0 <= j_, j_ < ln(l_) - a_, a_ >= 0), at(f(l_, a_), j_) == at(l_, j_ + a_)), patterns=[at(f(l_, a_), j_)]))
                    m.global_axioms.append(z3.ForAll([l_, a_, j_], z3.Implies(z3.And(0 <= a_, a_ <= j_, j_ < ln(l_)), at(f(l_, a_), j_ - a_) == at(l_, j_)), patterns=[z3.MultiPattern(f(l_, a_), at(l_, j_))]))
                return [(st, st.alloc(ListObj(sv=SV(f(ex.to_term(st, o, ("list", et)), ex.to_term(st, lo, "int")), ("list", et)))))]
        raise Unsupported("slice of symbolic sequence")

    # ------------------------------------------------------------------------------------------
    # comparison and arithmetic
    def compare(self, st, op, a, b):
        ex, m = self.ex, self.m
        if isinstance(op, pyast.Eq):
            return [(st, self._b(ex.eq(st, a, b)))]
        if isinstance(op, pyast.NotEq):
            return [(st, self._b(ex.not_(ex.eq(st, a, b))))]
        if isinstance(op, pyast.Is):
            return [(st, self._b(self.is_(st, a, b)))]
        if isinstance(op, pyast.IsNot):
            return [(st, self._b(ex.not_(self.is_(st, a, b))))]
        if isinstance(op, pyast.In):
            return self.contains(st, b, a)
        if isinstance(op, pyast.NotIn):
            return ex.bind(self.contains(st, b, a), lambda s, r: [(s, self._b(ex.not_(self._raw(r))))])
        # ordering
        ta = self._num(st, a)
        tb = self._num(st, b)
        if ta is not None and tb is not None:
            if isinstance(ta, int) and isinstance(tb, int):
                r = {pyast.Lt: ta < tb, pyast.LtE: ta <= tb, pyast.Gt: ta > tb, pyast.GtE: ta >= tb}[type(op)]
                return [(st, r)]
            ta = ex.to_term(st, ta, "int")
            tb = ex.to_term(st, tb, "int")
            r = {pyast.Lt: ta < tb, pyast.LtE: ta <= tb, pyast.Gt: ta > tb, pyast.GtE: ta >= tb}[type(op)]
            return [(st, SV(r, "bool"))]
        # sets: subset tests
        if isinstance(a, Ref) and isinstance(b, Ref) and isinstance(st.heap[a.id], SetObj) and isinstance(st.heap[b.id], SetObj):
            if isinstance(op, pyast.LtE):
                return self.call_method(st, None, a, "issubset", [b], {})
            if isinstance(op, pyast.GtE):
                return self.call_method(st, None, b, "issubset", [a], {})
        raise Unsupported(f"ordering comparison of {a!r} and {b!r}")

    def _num(self, st, v):
        if isinstance(v, bool):
            return int(v)
        if isinstance(v, int):
            return v
        if isinstance(v, SV) and v.ty == "int":
            return v
        if isinstance(v, SV) and v.ty == "bool":
            return SV(z3.If(v.term, 1, 0), "int")
        return None

    @staticmethod
    def _b(c):
        if isinstance(c, bool):
            return c
        c = z3.simplify(c)
        if z3.is_true(c):
            return True
        if z3.is_false(c):
            return False
        return SV(c, "bool")

    @staticmethod
    def _raw(v):
        if isinstance(v, SV):
            return v.term
        return v

    def is_(self, st, a, b):
        if a is None or b is None:
            other = b if a is None else a
            if other is None:
                return True
            if isinstance(other, SV) and other.ty == "ast":
                return other.term == self.m.NoneAST
            return False
        if isinstance(a, Ref) and isinstance(b, Ref):
            return a.id == b.id
        if isinstance(a, bool) and isinstance(b, bool):
            return a == b
        raise Unsupported("`is` on non-None values")

    def contains(self, st, container, x):
        """x in container -> [(st, bool|SV bool)]"""
        ex, m = self.ex, self.m
        ex.check_read(container)
        if isinstance(container, Ref) and isinstance(st.heap[container.id], BagObj):
            bag = st.heap[container.id]
            if isinstance(x, str):
                if x in bag.universe:
                    return [(st, self._b(bag.counts[bag.universe.index(x)] > 0))]
                return [(st, False)]
            raise Unsupported("symbolic membership in bag")
        if isinstance(container, Ref) and isinstance(st.heap[container.id], DictObj):
            d = st.heap[container.id]
            if d.sym is None:
                return [(st, self._b(ex.or_([ex.eq(st, x, k) for k, _ in d.items])))]
        if isinstance(container, Ref) and isinstance(st.heap[container.id], SetObj):
            o = st.heap[container.id]
            if o.items is not None:
                return [(st, self._b(ex.or_([ex.eq(st, x, k) for k in o.items])))]
            et = o.sv.ty[1]
            return [(st, self._b(z3.Select(o.sv.term, ex.to_term(st, x, et))))]
        if isinstance(container, SV) and isinstance(container.ty, tuple) and container.ty[0] == "set":
            et = container.ty[1]
            return [(st, self._b(z3.Select(container.term, ex.to_term(st, x, et))))]
        items = self.concrete_items(st, container)
        if items is not None:
            return [(st, self._b(ex.or_([ex.eq(st, x, k) for k in items])))]
        acc = self.seq_access(st, container)
        if acc is not None:
            n, el, et = acc
            if et is None:
                return [(st, False)]
            i = z3.Int(f"i!in{fresh_id()}")
            e = el(i)
            c = ex.eq(st, x, e)
            return [(st, self._b(z3.Exists([i], z3.And(0 <= i, i < n, ex.as_z3_bool(c)))))]
        if isinstance(container, str) and isinstance(x, str):
            return [(st, x in container)]
        raise Unsupported(f"`in` on {container!r}")

    def binop(self, st, op, a, b):
        ex, m = self.ex, self.m
        na, nb = self._num(st, a), self._num(st, b)
        if na is not None and nb is not None and not isinstance(op, (pyast.BitOr, pyast.BitAnd, pyast.BitXor)):
            if isinstance(na, int) and isinstance(nb, int):
                try:
                    r = {
                        pyast.Add: lambda: na + nb,
                        pyast.Sub: lambda: na - nb,
                        pyast.Mult: lambda: na * nb,
                        pyast.FloorDiv: lambda: na // nb,
                        pyast.Mod: lambda: na % nb,
                    }[type(op)]()
                except KeyError:
                    raise Unsupported("int operator")
                except ZeroDivisionError:
                    return [(st, Raised("ZeroDivisionError"))]
                return [(st, r)]
            ta, tb = ex.to_term(st, na, "int"), ex.to_term(st, nb, "int")
            if isinstance(op, pyast.Add):
                return [(st, SV(ta + tb, "int"))]
            if isinstance(op, pyast.Sub):
                return [(st, SV(ta - tb, "int"))]
            if isinstance(op, pyast.Mult):
                return [(st, SV(ta * tb, "int"))]
            raise Unsupported("symbolic int operator")
        if isinstance(op, pyast.Add):
            # str + str, list + list
            if isinstance(a, str) or isinstance(b, str) or (isinstance(a, SV) and a.ty == "str"):
                return [(st, self.str_concat(st, a, b))]
            return self.list_concat(st, a, b)
        if isinstance(op, pyast.BitOr) and isinstance(a, (bool,)) and isinstance(b, bool):
            return [(st, a or b)]
        if isinstance(op, (pyast.BitOr, pyast.BitAnd)) and (self._is_boolish(a) and self._is_boolish(b)):
            ta, tb = ex.to_term(st, a, "bool"), ex.to_term(st, b, "bool")
            return [(st, self._b(z3.Or(ta, tb) if isinstance(op, pyast.BitOr) else z3.And(ta, tb)))]
        if isinstance(op, (pyast.BitOr, pyast.BitAnd, pyast.Sub)) and self._is_set(st, a) and self._is_set(st, b):
            name = {pyast.BitOr: "union", pyast.BitAnd: "intersection", pyast.Sub: "difference"}[type(op)]
            return self.call_method(st, None, a, name, [b], {})
        if isinstance(op, pyast.Mult) and isinstance(b, SV) and b.ty == "int" and self.concrete_items(st, a) is not None and len(self.concrete_items(st, a)) == 1:
            # [x] * n with symbolic n: a definitional function of (x, n)
            x = self.concrete_items(st, a)[0]
            et = ex.ty_of(st, x)
            key = f"repeat_{ty_name(et)}"
            first = key not in ex.ufuncs
            ls = m.sort(("list", et))
            f = ex.ufunc(key, [m.sort(et), z3.IntSort()], ls)
            if first:
                ln, at = m.lst_funcs(et)
                x_, n_, j_ = z3.Const("x!rep", m.sort(et)), z3.Int("n!rep"), z3.Int("j!rep")
                m.global_axioms.append(z3.ForAll([x_, n_], ln(f(x_, n_)) == z3.If(n_ > 0, n_, 0), patterns=[f(x_, n_)]))
                m.global_axioms.append(z3.ForAll([x_, n_, j_], z3.Implies(z3.And(0 <= j_, j_ < n_), at(f(x_, n_), j_) == x_), patterns=[at(f(x_, n_), j_)]))
            return [(st, st.alloc(ListObj(sv=SV(f(ex.to_term(st, x, et), b.term), ("list", et)))))]
        if isinstance(op, pyast.Mult) and isinstance(b, int) and self.concrete_items(st, a) is not None:
            items = self.concrete_items(st, a) * b
            return [(st, st.alloc(ListObj(items=tuple(items))))]
        raise Unsupported(f"binary operator {type(op).__name__} on {a!r}, {b!r}")

    @staticmethod
    def _is_boolish(v):
        return isinstance(v, bool) or (isinstance(v, SV) and v.ty == "bool")

    def _is_set(self, st, v):
        if isinstance(v, Ref) and isinstance(st.heap[v.id], SetObj):
            return True
        return isinstance(v, SV) and isinstance(v.ty, tuple) and v.ty[0] == "set"

    def list_concat(self, st, a, b):
        ex = self.ex
        if isinstance(a, Ref) and isinstance(st.heap[a.id], BagObj) or isinstance(b, Ref) and isinstance(st.heap[b.id], BagObj):
            return [(st, self.bag_add(st, a, b))]
        ia, ib = self.concrete_items(st, a), self.concrete_items(st, b)
        if isinstance(a, Tup) and isinstance(b, Tup):
            return [(st, Tup(a.items + b.items))]
        if ia is not None and ib is not None:
            return [(st, st.alloc(ListObj(items=tuple(ia) + tuple(ib))))]
        parts = [("items", ia) if ia is not None else ("sym", a), ("items", ib) if ib is not None else ("sym", b)]
        return [(st, self.concat_parts(st, parts))]

    def bag_add(self, st, a, b):
        oa = st.heap[a.id] if isinstance(a, Ref) else None
        ob = st.heap[b.id] if isinstance(b, Ref) else None
        bag = oa if isinstance(oa, BagObj) else ob
        other = b if bag is oa else a
        counts = list(bag.counts)
        oo = st.heap[other.id] if isinstance(other, Ref) else None
        if isinstance(oo, BagObj):
            counts = [c + d for c, d in zip(counts, oo.counts)]
        else:
            items = self.concrete_items(st, other)
            if items is None:
                raise Unsupported("bag + symbolic list")
            for it in items:
                if not isinstance(it, str) or it not in bag.universe:
                    raise Unsupported("bag + foreign element")
                i = bag.universe.index(it)
                counts[i] = counts[i] + 1
        return st.alloc(BagObj(bag.universe, tuple(counts)))


def _tyname(t):
    from .model import ty_name

    return ty_name(t)
