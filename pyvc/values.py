"""Run-time values of the symbolic executor."""
from __future__ import annotations

import ast as pyast
from dataclasses import dataclass, field
from typing import Any, Optional

import z3


class Unsupported(Exception):
    """the code left the supported Python fragment: the unit is out of reach (UNDECIDED, never a violation)"""


@dataclass(frozen=True)
class SV:
    """symbolic value: a z3 term plus its python-side type descriptor"""

    term: Any
    ty: Any

    def __repr__(self):
        return f"SV<{self.ty}>({self.term})"


@dataclass(frozen=True)
class Ref:
    """reference to a mutable heap object"""

    id: int


@dataclass(frozen=True)
class Tup:
    items: tuple

    def __iter__(self):
        return iter(self.items)

    def __len__(self):
        return len(self.items)


@dataclass(frozen=True)
class Fn:
    """a repo function / lambda closure"""

    node: Any  # ast.FunctionDef | ast.Lambda
    module: str
    qualname: str
    env_id: Optional[int]  # enclosing environment (closures), None for module level
    bound_self: Any = None
    cls: Optional[str] = None
    is_static: bool = False


@dataclass(frozen=True)
class Partial:
    fn: Any
    args: tuple
    kwargs: tuple  # of (name, value)


@dataclass(frozen=True)
class Builtin:
    name: str
    bound_self: Any = None


@dataclass(frozen=True)
class ClassVal:
    """a class object: repo class, clingo.ast constructor function, dataclass/record, exception class"""

    module: str
    name: str


@dataclass(frozen=True)
class ModuleVal:
    name: str


@dataclass(frozen=True)
class EnumClass:
    name: str


@dataclass(frozen=True)
class Opaque:
    """an uninterpreted python object we only pass around (e.g. a logger, LOC)"""

    name: str


# ---------------------------------------------------------------------------------------------
# heap objects (immutable records; mutation replaces the record in State.heap)


@dataclass(frozen=True)
class ListObj:
    items: Optional[tuple] = None  # concrete spine
    sv: Optional[SV] = None  # symbolic list value (exactly one of items/sv is set)


@dataclass(frozen=True)
class SetObj:
    items: Optional[tuple] = None  # concrete spine (elements may be symbolic)
    sv: Optional[SV] = None
    frozen: bool = False
    enum: Optional[SV] = None  # a duplicate-free symbolic list known to enumerate exactly this set
    parent: Any = None  # (dict heap id, key value): this set is the bucket of a symbolic defaultdict(set)
    of_list: Any = None  # (list term, element type): this set is set(<that symbolic list>), not modified since


@dataclass(frozen=True)
class DictObj:
    items: tuple = ()  # ((key, value), ...)
    default_factory: Any = None  # for defaultdict: 'set' | 'list' | None
    # symbolic dict: key type -> (domain set term, map term)
    sym: Any = None


@dataclass(frozen=True)
class Obj:
    cls: str
    fields: tuple  # ((name, value), ...)

    def get(self, name):
        for k, v in self.fields:
            if k == name:
                return v
        raise KeyError(name)

    def has(self, name):
        return any(k == name for k, _ in self.fields)

    def set(self, name, value):
        fl = [(k, v) for k, v in self.fields if k != name]
        fl.append((name, value))
        return Obj(self.cls, tuple(fl))


@dataclass(frozen=True)
class BagObj:
    """multiset over a fixed finite universe of python strings (abstraction of a list of tokens whose
    order is irrelevant to the code under analysis): counts are z3 Int terms"""

    universe: tuple
    counts: tuple  # z3 Int terms, aligned with universe


@dataclass(frozen=True)
class GenObj:
    """result of calling a generator function: materialised as a list value"""

    lst: Any


# ---------------------------------------------------------------------------------------------
# outcomes


@dataclass(frozen=True)
class Outcome:
    kind: str  # normal | return | break | continue | raise
    value: Any = None
    exc: Optional[str] = None  # exception class name
    info: Any = None


NORMAL = Outcome("normal")
BREAK = Outcome("break")
CONTINUE = Outcome("continue")


@dataclass(frozen=True)
class View:
    """lazy iterable over symbolic data: enumerate / zip / map / filter / range / set iteration ..."""

    kind: str
    args: tuple
