"""Builtin function calls and container methods (mixin for Builtins)."""
from __future__ import annotations

import ast as pyast
import itertools

import z3

from .state import fresh_id
from .values import (
    BagObj,
    Builtin,
    ClassVal,
    DictObj,
    EnumClass,
    Fn,
    ListObj,
    ModuleVal,
    Obj,
    Opaque,
    Partial,
    Ref,
    SetObj,
    SV,
    Tup,
    Unsupported,
    View,
)


def Raised(exc, info=None):
    from .exec import Raised as R

    return R(exc, info)


class Methods:
    # ------------------------------------------------------------------------------------------
    def call_builtin(self, st, fr, f: Builtin, args, kwargs, node=None):
        ex, m = self.ex, self.m
        name = f.name
        if name.startswith("method:"):
            return self.call_method(st, fr, f.bound_self, name[7:], args, kwargs)
        if name == "len":
            return self.len_(st, args[0])
        if name in ("list", "tuple"):
            if not args:
                return [(st, st.alloc(ListObj(items=())) if name == "list" else Tup(()))]
            return self.to_list(st, args[0], name)
        if name in ("set", "frozenset"):
            if not args:
                return [(st, st.alloc(SetObj(items=(), frozen=name == "frozenset")))]
            return self.to_set(st, args[0], name == "frozenset")
        if name == "dict":
            if not args and not kwargs:
                return [(st, st.alloc(DictObj()))]
            raise Unsupported("dict(...) with arguments")
        if name == "collections.defaultdict":
            fac = args[0] if args else None
            facname = fac.name if isinstance(fac, Builtin) else None
            if facname not in ("set", "list"):
                raise Unsupported("defaultdict factory")
            return [(st, st.alloc(DictObj((), facname)))]
        if name == "isinstance":
            return self.isinstance_(st, args[0], args[1])
        if name == "bool":
            return [(st, self._b(ex.truth(st, args[0]))) if args else (st, False)]
        if name == "int":
            v = args[0]
            if isinstance(v, (int, bool)):
                return [(st, int(v))]
            if isinstance(v, SV) and v.ty == "int":
                return [(st, v)]
            if isinstance(v, SV) and v.ty == "bool":
                return [(st, SV(z3.If(v.term, 1, 0), "int"))]
            if isinstance(v, SV) and v.ty == "str":
                # int(str): partial; modelled by uninterpreted parse function + validity predicate
                ok = ex.ufunc("int_parse_ok", [m.Str], z3.BoolSort())(v.term)
                val = ex.ufunc("int_parse", [m.Str], z3.IntSort())(v.term)
                out = []
                for s2, b in ex.branch(st, ok):
                    out.append((s2, SV(val, "int")) if b else (s2, Raised("ValueError", "int()")))
                return out
            if isinstance(v, str):
                try:
                    return [(st, int(v))]
                except ValueError:
                    return [(st, Raised("ValueError", "int()"))]
            raise Unsupported("int() of " + repr(v))
        if name == "str":
            return [(st, self.to_str(st, args[0]))]
        if name == "abs":
            v = args[0]
            if isinstance(v, int):
                return [(st, abs(v))]
            if isinstance(v, SV) and v.ty == "int":
                return [(st, SV(z3.If(v.term >= 0, v.term, -v.term), "int"))]
        if name == "print":
            # stdout is the heap list with the reserved id 0: one entry per print call (the printed object)
            if 0 not in st.heap:
                st.heap[0] = ListObj(items=())
            if kwargs or len(args) != 1:
                raise Unsupported("print with several arguments / keywords")
            return self.call_method(st, fr, Ref(0), "append", [self.to_str(st, args[0])], {})
        if name.startswith("logging."):
            st.log.append(("call", name, tuple(args), tuple(sorted(kwargs.items(), key=lambda kv: kv[0]))))
            return [(st, None)]
        if name == "clingo.parse_files":
            # parse_files(files, callback, ...): the callback receives the parsed statements in order;
            # supported callback: <list>.append  ->  the list is extended by an arbitrary sequence of statements
            cb = args[1] if len(args) > 1 else kwargs.get("callback")
            if isinstance(cb, Builtin) and cb.name == "method:append" and isinstance(cb.bound_self, Ref):
                parsed = ex.fresh(st, "parsed", ("list", "ast"))
                st.log.append(("call", name, tuple(args[:1]), ()))
                return ex.bind(self.call_method(st, fr, cb.bound_self, "extend", [parsed], {}), lambda s, _v: [(s, None)])
            raise Unsupported("parse_files callback")
        if name == "setattr":
            return self.setattr_dyn(st, args[0], args[1], args[2])
        if name == "range":
            if len(args) == 1:
                return [(st, View("range", (0, args[0])))]
            if len(args) == 2:
                return [(st, View("range", (args[0], args[1])))]
            raise Unsupported("range with step")
        if name == "enumerate":
            start = args[1] if len(args) > 1 else kwargs.get("start", 0)
            return [(st, View("enumerate", (args[0], start)))]
        if name == "zip":
            return [(st, View("zip", tuple(args)))]
        if name == "reversed":
            return [(st, View("reversed", (args[0],)))]
        if name == "itertools.chain":
            return [(st, View("chain", tuple(args)))]
        if name == "iter":
            return [(st, args[0])]
        if name == "map":
            return self.ex.L.map_call(st, fr, args[0], args[1:])
        if name == "filter":
            return self.ex.L.filter_call(st, fr, args[0], args[1])
        if name in ("any", "all"):
            return self.ex.L.any_all(st, fr, name, args[0])
        if name == "sorted":
            return self.sorted_(st, args[0], kwargs)
        if name == "sum":
            items = self.concrete_items(st, args[0])
            if items is not None:
                acc = 0
                for it in items:
                    r = self.binop(st, pyast.Add(), acc, it)
                    acc = r[0][1]
                return [(st, acc)]
            return self.ex.L.sum_call(st, fr, args[0])
        if name in ("min", "max"):
            items = args if len(args) > 1 else self.concrete_items(st, args[0])
            if items is not None and all(isinstance(i, int) for i in items):
                return [(st, (min if name == "min" else max)(items))]
            if items is not None and len(items) == 2 and all(self._num(st, i) is not None for i in items):
                ta, tb = (ex.to_term(st, self._num(st, i), "int") for i in items)
                return [(st, SV(z3.If(ta >= tb, ta, tb) if name == "max" else z3.If(ta <= tb, ta, tb), "int"))]
            raise Unsupported(name + " over symbolic values")
        if name == "functools.partial":
            return [(st, Partial(args[0], tuple(args[1:]), tuple(kwargs.items())))]
        if name == "copy.deepcopy":
            return [(st, self.deepcopy(st, args[0]))]
        if name in ("itertools.combinations", "itertools.permutations", "itertools.product", "itertools.pairwise"):
            seqs = [self.concrete_items(st, a) if not isinstance(a, int) else a for a in args]
            if name == "itertools.permutations" and seqs[0] is None and len(args) == 2 and args[1] == 2:
                # all ordered pairs of distinct positions of a symbolic sequence, in an unspecified order
                snap = self.to_list(st, args[0], "tuple")[0][1]  # permutations() copies its argument first
                return [(st, View("perm2", (snap,)))]
            if any(s is None for s in seqs):
                raise Unsupported(name + " over symbolic sequence")
            fn = getattr(itertools, name.split(".")[1])
            if name == "itertools.product":
                res = fn(*seqs)
            else:
                res = fn(*seqs)
            return [(st, st.alloc(ListObj(items=tuple(Tup(tuple(t)) for t in res))))]
        if name == "clingo.Number":
            v = ex.to_term(st, args[0], "int")
            return [(st, SV(m.Sym.SymNumber(v), "sym"))]
        if name == "clingo.String":
            return [(st, SV(m.Sym.SymString(ex.to_term(st, args[0], "str")), "sym"))]
        if name == "clingo.Location":
            return [(st, Opaque("location"))]
        if name in ("str.lower", "str.upper"):
            return [(st, Builtin(name))]
        if name == "set.union":
            # set.union(*sets)
            if not args:
                return [(st, Raised("TypeError", "set.union needs an argument"))]
            res = [(st, args[0])]
            for other in args[1:]:
                res = ex.bind(res, lambda s, acc, other=other: self.call_method(s, fr, acc, "union", [other], {}))
            # result must be a fresh set
            return ex.bind(res, lambda s, acc: self.to_set(s, acc, False))
        if name == "next":
            # next(iter(s)): some element of a non-empty collection (which one is unspecified for sets)
            src = args[0]
            items = self.concrete_items(st, src)
            if items is not None:
                if items:
                    return [(st, items[0])]
                return [(st, Raised("StopIteration"))] if len(args) == 1 else [(st, args[1])]
            if self._is_set(st, src):
                t = ex.ty_of(st, src)
                term = ex.to_term(st, src, t)
                xq = z3.Const(f"x!nx{fresh_id()}", m.sort(t[1]))
                out = []
                for s2, b in ex.branch(st, z3.Exists([xq], z3.Select(term, xq))):
                    if b:
                        e_ = ex.fresh(s2, "anyelem", t[1])
                        s2.undet.append(e_.term)
                        s2.assume(z3.Select(term, e_.term))
                        out.append((s2, e_))
                    else:
                        out.append((s2, Raised("StopIteration")) if len(args) == 1 else (s2, args[1]))
                return out
            raise Unsupported("next() of " + repr(src))
        raise Unsupported(f"builtin {name}")

    def setattr_dyn(self, st, obj, name, v):
        if isinstance(name, str):
            return self.setattr(st, obj, name, v)
        # setattr(namespace, self.dest, values): dest symbolic -> ghost log
        st.log.append(("setattr", obj, name, v))
        return [(st, None)]

    def deepcopy(self, st, v):
        if isinstance(v, Ref):
            o = st.heap[v.id]
            if isinstance(o, ListObj):
                if o.items is not None:
                    return st.alloc(ListObj(items=tuple(self.deepcopy(st, i) for i in o.items)))
                return st.alloc(o)
            return st.alloc(o)
        return v

    def len_(self, st, v):
        m = self.m
        items = self.concrete_items(st, v)
        if items is not None:
            return [(st, len(items))]
        if isinstance(v, Ref) and isinstance(st.heap[v.id], BagObj):
            return [(st, SV(z3.Sum(*st.heap[v.id].counts), "int"))]
        acc = self.seq_access(st, v)
        if acc is not None:
            return [(st, SV(acc[0], "int"))]
        if isinstance(v, Ref) and isinstance(st.heap[v.id], SetObj) and st.heap[v.id].of_list is not None:
            # len(set(l)) for a symbolic list l: the number of distinct elements, a definitional function of l with
            # 0 <= dc(l) <= len(l) and dc(l) = len(l) <=> no two positions of l hold the same element
            lt, et = st.heap[v.id].of_list
            key = "distinct_count_" + _tyname(et)
            first = key not in self.ex.ufuncs
            ls = m.sort(("list", et))
            dc = self.ex.ufunc(key, [ls], z3.IntSort())
            if first:
                ln, at = m.lst_funcs(et)
                l_, i_, j_ = z3.Const("l!dc", ls), z3.Int("i!dc"), z3.Int("j!dc")
                m.global_axioms.append(z3.ForAll([l_], z3.And(0 <= dc(l_), dc(l_) <= ln(l_)), patterns=[dc(l_)]))
                m.global_axioms.append(
                    z3.ForAll([l_], (dc(l_) == ln(l_)) == z3.ForAll([i_, j_], z3.Implies(z3.And(0 <= i_, i_ < j_, j_ < ln(l_)), at(l_, i_) != at(l_, j_))), patterns=[dc(l_)])
                )
            return [(st, SV(dc(lt), "int"))]
        if self._is_set(st, v):
            t = self.ex.ty_of(st, v)
            card = self.ex.ufunc("card_" + _tyname(t[1]), [m.sort(t)], z3.IntSort())
            term = self.ex.to_term(st, v, t)
            xq = z3.Const(f"x!card{fresh_id()}", m.sort(t[1]))
            st.assume(card(term) >= 0)
            st.assume((card(term) == 0) == z3.Not(z3.Exists([xq], z3.Select(term, xq))))
            return [(st, SV(card(term), "int"))]
        raise Unsupported(f"len of {v!r}")

    def to_list(self, st, v, kind):
        items = self.concrete_items(st, v)
        if items is not None:
            if kind == "tuple":
                return [(st, Tup(tuple(items)))]
            return [(st, st.alloc(ListObj(items=tuple(items))))]
        if isinstance(v, Ref) and isinstance(st.heap[v.id], BagObj):
            return [(st, st.alloc(st.heap[v.id]))]
        if isinstance(v, SV) and isinstance(v.ty, tuple) and v.ty[0] == "list":
            if kind == "tuple":
                return [(st, v)]
            return [(st, st.alloc(ListObj(sv=v)))]
        if isinstance(v, Ref) and isinstance(st.heap[v.id], ListObj):
            o = st.heap[v.id]
            if kind == "tuple":
                return [(st, o.sv)]
            return [(st, st.alloc(o))]
        if isinstance(v, View):
            return self.ex.L.materialize_view(st, v, kind)
        if self._is_set(st, v):
            # list(set): a list with the same members in unspecified order
            t = self.ex.ty_of(st, v)
            return [(st, self.list_of_set(st, v, t[1]))]
        raise Unsupported(f"{kind}() of {v!r}")

    def list_of_set(self, st, v, et):
        ex, m = self.ex, self.m
        if isinstance(v, Ref) and isinstance(st.heap[v.id], SetObj) and st.heap[v.id].enum is not None:
            return st.alloc(ListObj(sv=st.heap[v.id].enum))
        L = ex.fresh(st, "setlist", ("list", et))
        ln, at = m.lst_funcs(et)
        term = ex.to_term(st, v, ("set", et))
        i = z3.Int(f"i!sl{fresh_id()}")
        j = z3.Int(f"j!sl{fresh_id()}")
        x = z3.Const(f"x!sl{fresh_id()}", m.sort(et))
        st.assume(z3.ForAll([i], z3.Implies(z3.And(0 <= i, i < ln(L.term)), z3.Select(term, at(L.term, i)))))
        st.assume(
            z3.ForAll([x], z3.Implies(z3.Select(term, x), z3.Exists([i], z3.And(0 <= i, i < ln(L.term), at(L.term, i) == x))))
        )
        st.assume(
            z3.ForAll(
                [i, j],
                z3.Implies(z3.And(0 <= i, i < j, j < ln(L.term)), at(L.term, i) != at(L.term, j)),
            )
        )
        return st.alloc(ListObj(sv=L))

    def to_set(self, st, v, frozen):
        ex, m = self.ex, self.m
        items = self.concrete_items(st, v)
        if items is not None:
            return [(st, st.alloc(SetObj(items=self.dedupe(st, items), frozen=frozen)))]
        if self._is_set(st, v):
            t = ex.ty_of(st, v)
            return [(st, st.alloc(SetObj(sv=SV(ex.to_term(st, v, t), t), frozen=frozen)))]
        acc = self.seq_access(st, v)
        if acc is not None:
            n, el, et = acc
            if et is None:
                return [(st, st.alloc(SetObj(items=(), frozen=frozen)))]
            if isinstance(et, tuple) and et[0] == "tuple":
                raise Unsupported("set of symbolic tuples")
            x = z3.Const(f"x!ts{fresh_id()}", m.sort(et))
            i = z3.Int(f"i!ts{fresh_id()}")
            term = z3.Lambda([x], z3.Exists([i], z3.And(0 <= i, i < n, el(i).term == x)))
            of_list = None
            if getattr(ex, "functional_lists", False) and isinstance(v, Ref) and isinstance(st.heap[v.id], ListObj) and st.heap[v.id].sv is not None and frozen is False:
                of_list = (st.heap[v.id].sv.term, et)
            return [(st, st.alloc(SetObj(sv=SV(term, ("set", et)), frozen=frozen, of_list=of_list)))]
        raise Unsupported(f"set() of {v!r}")

    def isinstance_(self, st, v, cls):
        if isinstance(cls, Builtin):
            n = cls.name
            if n == "set":
                return [(st, self._is_set(st, v))]
            if n == "list":
                return [(st, isinstance(v, Ref) and isinstance(st.heap[v.id], ListObj))]
            if n == "int":
                return [(st, isinstance(v, int) or (isinstance(v, SV) and v.ty in ("int", "bool")))]
            if n == "str":
                return [(st, isinstance(v, str) or (isinstance(v, SV) and v.ty == "str"))]
        if isinstance(cls, ClassVal) and cls.name == "AST":
            return [(st, isinstance(v, SV) and v.ty == "ast")]
        raise Unsupported(f"isinstance(.., {cls!r})")

    def sorted_(self, st, v, kwargs):
        """sorted(): result has the same elements; order by an unspecified strict total order.
        For concrete lists of python ints/strs we sort; otherwise permutation abstraction."""
        ex, m = self.ex, self.m
        if kwargs:
            raise Unsupported("sorted with key")
        if isinstance(v, Ref) and isinstance(st.heap[v.id], BagObj):
            return [(st, st.alloc(st.heap[v.id]))]
        items = self.concrete_items(st, v)
        if items is not None and all(isinstance(i, (int, str)) and not isinstance(i, bool) for i in items):
            try:
                return [(st, st.alloc(ListObj(items=tuple(sorted(items)))))]
            except TypeError:
                pass
        if items is not None and len(items) <= 1:
            return [(st, st.alloc(ListObj(items=tuple(items))))]
        # permutation abstraction: fresh list, same length, same members (as multiset for sets: same set)
        if self._is_set(st, v):
            t = ex.ty_of(st, v)
            if t[1] is None:
                return [(st, st.alloc(ListObj(items=())))]
            r = self.list_of_set(st, v, t[1])
            st.assume(self.sorted_fact(st, st.heap[r.id].sv))
            return [(st, r)]
        acc = self.seq_access(st, v)
        if acc is None:
            raise Unsupported(f"sorted of {v!r}")
        n, el, et = acc
        if isinstance(et, tuple) and et[0] == "tuple":
            raise Unsupported("sorted of symbolic tuples")
        L = ex.fresh(st, "sorted", ("list", et))
        ln, at = m.lst_funcs(et)
        i = z3.Int(f"i!so{fresh_id()}")
        j = z3.Int(f"j!so{fresh_id()}")
        st.assume(ln(L.term) == n)
        # same members (set-wise); multiplicities are not tracked (listed as an assumption of the encoding)
        st.assume(z3.ForAll([i], z3.Implies(z3.And(0 <= i, i < n), z3.Exists([j], z3.And(0 <= j, j < n, at(L.term, j) == el(i).term)))))
        st.assume(z3.ForAll([j], z3.Implies(z3.And(0 <= j, j < n), z3.Exists([i], z3.And(0 <= i, i < n, at(L.term, j) == el(i).term)))))
        st.assume(self.sorted_fact(st, L))
        return [(st, st.alloc(ListObj(sv=L)))]

    def sorted_fact(self, st, L: SV):
        """at(L,i) <=_ord at(L,j) for i<j, over an uninterpreted total preorder key per element type"""
        ex, m = self.ex, self.m
        et = L.ty[1]
        key = ex.ufunc("sortkey_" + _tyname(et), [m.sort(et)], z3.IntSort())
        ln, at = m.lst_funcs(et)
        i = z3.Int(f"i!sf{fresh_id()}")
        j = z3.Int(f"j!sf{fresh_id()}")
        return z3.ForAll(
            [i, j], z3.Implies(z3.And(0 <= i, i < j, j < ln(L.term)), key(at(L.term, i)) <= key(at(L.term, j)))
        )

    # ------------------------------------------------------------------------------------------
    def call_method(self, st, fr, recv, name, args, kwargs):
        ex, m = self.ex, self.m
        if isinstance(recv, SV):
            t = recv.ty
            if t == "ast":
                if name == "update":
                    if not kwargs:
                        return [(st, recv)]
                    return self.ast_update(st, recv, kwargs)
                if name == "unpool":
                    first = "unpool" not in ex.ufuncs
                    f = ex.ufunc("unpool", [m.AST], m.sort(("list", "ast")))
                    r = SV(f(recv.term), ("list", "ast"))
                    if first:
                        a_ = z3.Const("x!unp", m.AST)
                        m.global_axioms.append(z3.ForAll([a_], m.len(f(a_), "ast") >= 1, patterns=[f(a_)]))
                    return [(st, st.alloc(ListObj(sv=r)))]
                raise Unsupported(f"AST.{name}()")
            if t == "str":
                return self.str_method(st, recv, name, args)
            if isinstance(t, tuple) and t[0] == "list":
                if name == "index":
                    return self.list_index(st, recv, args[0])
                if name == "count":
                    raise Unsupported("count on symbolic list")
                raise Unsupported(f"method {name} on immutable symbolic sequence")
            if isinstance(t, tuple) and t[0] == "set":
                tmp = st.alloc(SetObj(sv=recv, frozen=True))
                return self.call_method(st, fr, tmp, name, args, kwargs)
        if isinstance(recv, str):
            return self.str_method(st, recv, name, args)
        if isinstance(recv, Tup):
            if name == "index":
                for i, it in enumerate(recv.items):
                    if ex.eq(st, it, args[0]) is True:
                        return [(st, i)]
                tmp = st.alloc(ListObj(items=recv.items))
                return self.call_method(st, fr, tmp, name, args, kwargs)
            if name == "count":
                tmp = st.alloc(ListObj(items=recv.items))
                return self.call_method(st, fr, tmp, name, args, kwargs)
        if isinstance(recv, Ref):
            o = st.heap[recv.id]
            if isinstance(o, ListObj):
                return self.list_method(st, fr, recv, o, name, args, kwargs)
            if isinstance(o, SetObj):
                return self.set_method(st, fr, recv, o, name, args, kwargs)
            if isinstance(o, DictObj):
                return self.dict_method(st, fr, recv, o, name, args, kwargs)
            if isinstance(o, BagObj):
                return self.bag_method(st, recv, o, name, args)
        raise Unsupported(f"method {name} on {recv!r}")

    def str_method(self, st, recv, name, args):
        ex, m = self.ex, self.m
        if isinstance(recv, str) and name == "join" and len(args) == 1:
            items = self.concrete_items(st, args[0])
            if items is not None and all(isinstance(i, str) for i in items):
                return [(st, recv.join(items))]
            return [(st, SV(z3.Const(f"joined!{fresh_id()}", m.Str), "str"))]
        if isinstance(recv, str) and all(isinstance(a, (str, int)) for a in args):
            if name in ("lower", "upper", "strip", "split", "startswith", "endswith", "join", "format", "count"):
                r = getattr(recv, name)(*args)
                if isinstance(r, list):
                    return [(st, st.alloc(ListObj(items=tuple(r))))]
                return [(st, r)]
        t = ex.to_term(st, recv, "str")
        if name == "split":
            sep = ex.to_term(st, args[0], "str")
            first = "str_split" not in ex.ufuncs
            f = ex.ufunc("str_split", [m.Str, m.Str], m.sort(("list", "str")))
            r = SV(f(t, sep), ("list", "str"))
            if first:
                # definitional fact of the uninterpreted function: a global axiom, not a fact of this path only
                a_, b_ = z3.Const("s!spl", m.Str), z3.Const("p!spl", m.Str)
                m.global_axioms.append(z3.ForAll([a_, b_], m.len(f(a_, b_), "str") >= 1, patterns=[f(a_, b_)]))
            return [(st, st.alloc(ListObj(sv=r)))]
        if name == "strip":
            chars = ex.to_term(st, args[0], "str") if args else m.strlit(" \t\n")
            f = ex.ufunc("str_strip", [m.Str, m.Str], m.Str)
            return [(st, SV(f(t, chars), "str"))]
        if name in ("lower", "upper"):
            f = ex.ufunc("str_" + name, [m.Str], m.Str)
            return [(st, SV(f(t), "str"))]
        raise Unsupported(f"str.{name}")

    def list_index(self, st, lst, x):
        ex, m = self.ex, self.m
        acc = self.seq_access(st, lst)
        n, el, et = acc
        if et is None:
            return [(st, Raised("ValueError", "index"))]
        xt = ex.to_term(st, x, et)
        i = z3.Int(f"i!idx{fresh_id()}")
        ln, at = m.lst_funcs(et)
        base = acc
        present = z3.Exists([i], z3.And(0 <= i, i < n, el(i).term == xt))
        out = []
        for s2, b in ex.branch(st, present):
            if b:
                k = ex.fresh(s2, "idx", "int")
                j = z3.Int(f"j!idx{fresh_id()}")
                s2.assume(0 <= k.term, k.term < n, el(k.term).term == xt)
                s2.assume(z3.ForAll([j], z3.Implies(z3.And(0 <= j, j < k.term), el(j).term != xt)))
                out.append((s2, k))
            else:
                out.append((s2, Raised("ValueError", "list.index")))
        return out

    def list_method(self, st, fr, ref, o, name, args, kwargs):
        ex, m = self.ex, self.m
        if o.items is not None:
            items = list(o.items)
            if name == "append":
                st.heap[ref.id] = ListObj(items=tuple(items + [args[0]]))
                return [(st, None)]
            if name == "extend":
                more = self.concrete_items(st, args[0])
                if more is not None:
                    st.heap[ref.id] = ListObj(items=tuple(items + more))
                    return [(st, None)]
                newl = self.concat_parts(st, [("items", items), ("sym", args[0])])
                st.heap[ref.id] = st.heap[newl.id]
                return [(st, None)]
            if name == "insert" and isinstance(args[0], int):
                items.insert(args[0], args[1])
                st.heap[ref.id] = ListObj(items=tuple(items))
                return [(st, None)]
            if name == "pop":
                if not items:
                    return [(st, Raised("IndexError", "pop"))]
                idx = args[0] if args else -1
                if isinstance(idx, int):
                    v = items.pop(idx)
                    st.heap[ref.id] = ListObj(items=tuple(items))
                    return [(st, v)]
            if name == "copy":
                return [(st, st.alloc(ListObj(items=tuple(items))))]
            if name == "clear":
                st.heap[ref.id] = ListObj(items=())
                return [(st, None)]
            if name in ("index", "remove", "count"):
                # fork over the first matching position
                out = []
                rest = st
                cnt_terms = []
                for i, it in enumerate(items):
                    c = ex.eq(rest, it, args[0])
                    if name == "count":
                        cnt_terms.append(c)
                        continue
                    brs = ex.branch(rest, c)
                    nxt = None
                    for s2, b in brs:
                        if b:
                            if name == "index":
                                out.append((s2, i))
                            else:
                                s2.heap[ref.id] = ListObj(items=tuple(items[:i] + items[i + 1 :]))
                                out.append((s2, None))
                        else:
                            nxt = s2
                    if nxt is None:
                        return out
                    rest = nxt
                if name == "count":
                    if all(isinstance(c, bool) for c in cnt_terms):
                        return [(st, sum(1 for c in cnt_terms if c))]
                    return [(st, SV(z3.Sum(*[z3.If(ex.as_z3_bool(c), 1, 0) for c in cnt_terms]), "int"))]
                out.append((rest, Raised("ValueError", f"list.{name}")))
                return out
            if name == "sort" and all(isinstance(i, (int, str)) for i in items):
                st.heap[ref.id] = ListObj(items=tuple(sorted(items)))
                return [(st, None)]
            if name == "reverse":
                st.heap[ref.id] = ListObj(items=tuple(reversed(items)))
                return [(st, None)]
            raise Unsupported(f"list.{name} (concrete)")
        # symbolic list
        sv = o.sv
        et = sv.ty[1]
        ln, at = m.lst_funcs(et)
        if name == "append":
            r = self.concat_parts(st, [("sym", sv), ("items", [args[0]])])
            st.heap[ref.id] = st.heap[r.id]
            return [(st, None)]
        if name == "extend":
            more = self.concrete_items(st, args[0])
            part = ("items", more) if more is not None else ("sym", args[0])
            r = self.concat_parts(st, [("sym", sv), part])
            st.heap[ref.id] = st.heap[r.id]
            return [(st, None)]
        if name == "index":
            return self.list_index(st, sv, args[0])
        if name == "copy":
            return [(st, st.alloc(ListObj(sv=sv)))]
        if name == "remove":
            # removes the first occurrence
            res = self.list_index(st, sv, args[0])
            out = []
            for s2, k in res:
                if not isinstance(k, SV):
                    out.append((s2, k))
                    continue
                R = ex.fresh(s2, "rm", sv.ty)
                j = z3.Int(f"j!rm{fresh_id()}")
                s2.assume(ln(R.term) == ln(sv.term) - 1)
                # element-wise relation, stated in both index directions so that E-matching can fire from either list
                s2.assume(z3.ForAll([j], z3.Implies(z3.And(0 <= j, j < k.term), at(R.term, j) == at(sv.term, j)), patterns=[at(R.term, j)]))
                s2.assume(z3.ForAll([j], z3.Implies(z3.And(0 <= j, j < k.term), at(R.term, j) == at(sv.term, j)), patterns=[at(sv.term, j)]))
                s2.assume(z3.ForAll([j], z3.Implies(z3.And(k.term <= j, j < ln(R.term)), at(R.term, j) == at(sv.term, j + 1)), patterns=[at(R.term, j)]))
                s2.assume(z3.ForAll([j], z3.Implies(z3.And(k.term < j, j < ln(sv.term)), at(sv.term, j) == at(R.term, j - 1)), patterns=[at(sv.term, j)]))
                s2.heap[ref.id] = ListObj(sv=R)
                out.append((s2, None))
            return out
        if name == "pop" and args and not isinstance(args[0], SV):
            raise Unsupported("pop on symbolic list")
        raise Unsupported(f"list.{name} (symbolic)")

    def _set_term(self, st, v, et):
        return self.ex.to_term(st, v, ("set", et))

    def _elem_ty_for(self, st, *vals):
        for v in vals:
            try:
                t = self.ex.ty_of(st, v)
            except Unsupported:
                continue
            if isinstance(t, tuple) and t[0] in ("set", "list") and t[1] is not None:
                return t[1]
        return None

    def _as_set_value(self, st, v):
        """any iterable -> Ref to SetObj"""
        if isinstance(v, Ref) and isinstance(st.heap[v.id], SetObj):
            return v
        r = self.to_set(st, v, False)
        return r[0][1]

    def set_method(self, st, fr, ref, o, name, args, kwargs):
        res = self._set_method(st, fr, ref, o, name, args, kwargs)
        if o.parent is not None and name in ("add", "update", "discard", "remove", "clear", "difference_update", "intersection_update"):
            for s2, _v in res:
                self._writeback_bucket(s2, ref, o.parent)
        return res

    def _writeback_bucket(self, st, ref, parent):
        """the mutated set is the bucket of a symbolic defaultdict(set): store it back into the dict's map"""
        ex, m = self.ex, self.m
        did, key = parent
        cur = st.heap[ref.id]
        if cur.parent is None:
            st.heap[ref.id] = SetObj(items=cur.items, sv=cur.sv, frozen=cur.frozen, parent=parent)
            cur = st.heap[ref.id]
        d = st.heap[did]
        t = ex.ty_of(st, ref)
        if t[1] is None:
            return
        elem_ty = t[1]
        key_ty = ex.ty_of(st, key)
        bucket = ex.to_term(st, ref, ("set", elem_ty))
        if d.sym is None:
            if d.items:
                raise Unsupported("defaultdict with both concrete and symbolic keys")
            inner_sort = z3.ArraySort(m.sort(elem_ty), z3.BoolSort())
            arr = z3.K(m.sort(key_ty), z3.K(m.sort(elem_ty), False))
        else:
            key_ty, elem_ty, arr = d.sym
        arr = z3.Store(arr, ex.to_term(st, key, key_ty), bucket)
        st.heap[did] = DictObj((), d.default_factory, (key_ty, elem_ty, arr))

    def _set_method(self, st, fr, ref, o, name, args, kwargs):
        ex, m = self.ex, self.m
        if name == "add":
            x = args[0]
            if o.items is not None:
                c = [ex.eq(st, x, k) for k in o.items]
                if any(ci is True for ci in c):
                    return [(st, None)]
                if all(ci is False for ci in c):
                    st.heap[ref.id] = SetObj(items=o.items + (x,), frozen=o.frozen)
                    return [(st, None)]
                et = ex.ty_of(st, x)
                term = z3.Store(self._set_term(st, ref, et), ex.to_term(st, x, et), True)
                st.heap[ref.id] = SetObj(sv=SV(term, ("set", et)), frozen=o.frozen)
                return [(st, None)]
            et = o.sv.ty[1]
            st.heap[ref.id] = SetObj(sv=SV(z3.Store(o.sv.term, ex.to_term(st, x, et), True), o.sv.ty), frozen=o.frozen)
            return [(st, None)]
        if name in ("discard", "remove"):
            x = args[0]
            if o.items is not None:
                c = [ex.eq(st, x, k) for k in o.items]
                if all(isinstance(ci, bool) for ci in c):
                    if name == "remove" and not any(c):
                        return [(st, Raised("KeyError", "set.remove"))]
                    st.heap[ref.id] = SetObj(items=tuple(k for k, ci in zip(o.items, c) if not ci), frozen=o.frozen)
                    return [(st, None)]
                et = ex.ty_of(st, x)
                sv = SV(self._set_term(st, ref, et), ("set", et))
            else:
                sv = o.sv
            et = sv.ty[1]
            xt = ex.to_term(st, x, et)
            if name == "remove":
                out = []
                for s2, b in ex.branch(st, z3.Select(sv.term, xt)):
                    if b:
                        s2.heap[ref.id] = SetObj(sv=SV(z3.Store(sv.term, xt, False), sv.ty))
                        out.append((s2, None))
                    else:
                        out.append((s2, Raised("KeyError", "set.remove")))
                return out
            st.heap[ref.id] = SetObj(sv=SV(z3.Store(sv.term, xt, False), sv.ty), frozen=o.frozen)
            return [(st, None)]
        if name == "copy":
            return [(st, st.alloc(SetObj(items=o.items, sv=o.sv)))]
        if name == "clear":
            st.heap[ref.id] = SetObj(items=())
            return [(st, None)]
        binops = {
            "union": "union",
            "update": "union",
            "intersection": "intersection",
            "intersection_update": "intersection",
            "difference": "difference",
            "difference_update": "difference",
            "issubset": "issubset",
            "issuperset": "issuperset",
            "isdisjoint": "isdisjoint",
        }
        if name in binops:
            kind = binops[name]
            inplace = name in ("update", "intersection_update", "difference_update")
            if not args:
                if inplace:
                    return [(st, None)]
                return [(st, st.alloc(SetObj(items=o.items, sv=o.sv)))]
            cur_items, cur_sv = o.items, o.sv
            result = None
            for other in args:
                oref = self._as_set_value(st, other)
                oo = st.heap[oref.id]
                # concrete fast path
                if cur_items is not None and oo.items is not None:
                    eqs = {}
                    ok = True
                    for a in cur_items:
                        for b in oo.items:
                            c = ex.eq(st, a, b)
                            if not isinstance(c, bool):
                                ok = False
                            eqs[(id(a), id(b))] = c
                    if ok:
                        in_other = lambda a: any(eqs[(id(a), id(b))] for b in oo.items)
                        in_cur = lambda b: any(eqs[(id(a), id(b))] for a in cur_items)
                        if kind == "union":
                            cur_items = cur_items + tuple(b for b in oo.items if not in_cur(b))
                            continue
                        if kind == "intersection":
                            cur_items = tuple(a for a in cur_items if in_other(a))
                            continue
                        if kind == "difference":
                            cur_items = tuple(a for a in cur_items if not in_other(a))
                            continue
                        if kind == "issubset":
                            return [(st, all(in_other(a) for a in cur_items))]
                        if kind == "issuperset":
                            return [(st, all(in_cur(b) for b in oo.items))]
                        if kind == "isdisjoint":
                            return [(st, not any(in_other(a) for a in cur_items))]
                tmp_cur = st.alloc(SetObj(items=cur_items, sv=cur_sv))
                et = self._elem_ty_for(st, tmp_cur, oref)
                if et is None:
                    # both empty
                    if kind in ("issubset", "issuperset", "isdisjoint"):
                        return [(st, True)]
                    continue
                ta = self._set_term(st, tmp_cur, et)
                tb = self._set_term(st, oref, et)
                xq = z3.Const(f"x!so{fresh_id()}", m.sort(et))
                if kind == "union":
                    cur_sv, cur_items = SV(z3.Lambda([xq], z3.Or(z3.Select(ta, xq), z3.Select(tb, xq))), ("set", et)), None
                elif kind == "intersection":
                    cur_sv, cur_items = SV(z3.Lambda([xq], z3.And(z3.Select(ta, xq), z3.Select(tb, xq))), ("set", et)), None
                elif kind == "difference":
                    cur_sv, cur_items = SV(z3.Lambda([xq], z3.And(z3.Select(ta, xq), z3.Not(z3.Select(tb, xq)))), ("set", et)), None
                elif kind == "issubset":
                    return [(st, self._b(z3.ForAll([xq], z3.Implies(z3.Select(ta, xq), z3.Select(tb, xq)))))]
                elif kind == "issuperset":
                    return [(st, self._b(z3.ForAll([xq], z3.Implies(z3.Select(tb, xq), z3.Select(ta, xq)))))]
                elif kind == "isdisjoint":
                    return [(st, self._b(z3.ForAll([xq], z3.Not(z3.And(z3.Select(ta, xq), z3.Select(tb, xq))))))]
            if inplace:
                st.heap[ref.id] = SetObj(items=cur_items, sv=cur_sv, frozen=o.frozen)
                return [(st, None)]
            return [(st, st.alloc(SetObj(items=cur_items, sv=cur_sv)))]
        raise Unsupported(f"set.{name}")

    def dict_method(self, st, fr, ref, o, name, args, kwargs):
        if name == "get":
            return self.dict_get(st, ref, args[0], args[1] if len(args) > 1 else None)
        if name == "items" and o.sym is None:
            return [(st, st.alloc(ListObj(items=tuple(Tup((k, v)) for k, v in o.items))))]
        if name == "keys" and o.sym is None:
            return [(st, st.alloc(ListObj(items=tuple(k for k, _ in o.items))))]
        if name == "values" and o.sym is None:
            return [(st, st.alloc(ListObj(items=tuple(v for _, v in o.items))))]
        if name == "setdefault" and o.sym is None:
            r = self.dict_get(st, ref, args[0], Opaque("__missing__"))
            out = []
            for s2, v in r:
                if isinstance(v, Opaque) and v.name == "__missing__":
                    d = s2.heap[ref.id]
                    s2.heap[ref.id] = DictObj(d.items + ((args[0], args[1]),), d.default_factory)
                    out.append((s2, args[1]))
                else:
                    out.append((s2, v))
            return out
        raise Unsupported(f"dict.{name}")

    def bag_method(self, st, ref, o: BagObj, name, args):
        ex = self.ex
        if name == "remove":
            x = args[0]
            if not isinstance(x, str) or x not in o.universe:
                return [(st, Raised("ValueError", "remove"))]
            i = o.universe.index(x)
            out = []
            for s2, b in ex.branch(st, o.counts[i] > 0):
                if b:
                    counts = list(o.counts)
                    counts[i] = counts[i] - 1
                    s2.heap[ref.id] = BagObj(o.universe, tuple(counts))
                    out.append((s2, None))
                else:
                    out.append((s2, Raised("ValueError", "list.remove(x): x not in list")))
            return out
        if name == "count":
            x = args[0]
            if isinstance(x, str) and x in o.universe:
                return [(st, SV(o.counts[o.universe.index(x)], "int"))]
            return [(st, 0)]
        raise Unsupported(f"bag.{name}")


def _tyname(t):
    from .model import ty_name

    return ty_name(t)
