"""Well-formedness predicates generated from clingo's documented AST grammar (build/schema.json).

wf(m, "body_literal", x, depth) unfolds the grammar `depth` levels below x; below that only the set of
admissible constructors is constrained.  Sequence fields are constrained with a quantifier over indices.
These predicates are the `is_valid()` part of preconditions: symbolic inputs that are bit-valid in the
datatype but no clingo AST (e.g. a Literal whose atom is a Rule) are excluded."""
from __future__ import annotations

import z3

from .state import fresh_id


class WF:
    def __init__(self, model):
        self.m = model
        sch = model.schema
        self.nonterminals = sch["nonterminals"]
        self.refined = {}
        for r in sch["refined"]:
            self.refined.setdefault((r["context"], r["constructor"]), r["fields"])
        self.first_def = {}
        for r in sch["refined"]:
            self.first_def.setdefault(r["constructor"], r["fields"])

    def ctors_of(self, kind, seen=None):
        """all constructor names a nonterminal (or constructor) can start with"""
        seen = seen or set()
        if kind in seen:
            return set()
        seen.add(kind)
        if kind in self.nonterminals:
            out = set()
            for a in self.nonterminals[kind]:
                out |= self.ctors_of(a, seen)
            return out
        if kind in self.m.fields:
            return {kind}
        return set()

    def wf(self, kind, x, depth=2, ctx=None):
        m = self.m
        if kind in self.nonterminals:
            alts = []
            for a in self.nonterminals[kind]:
                alts.append(self.wf(a, x, depth, ctx=kind))
            return z3.Or(*alts) if len(alts) > 1 else alts[0]
        if kind not in m.fields:
            return z3.BoolVal(True)
        c = kind
        conj = [m.is_ctor(c, x)]
        if depth <= 0:
            return conj[0]
        fields_doc = self.refined.get((ctx, c)) or self.first_def.get(c) or []
        by_doc = {f["name"]: f for f in fields_doc}
        for f in m.fields[c]:
            fd = by_doc.get(f["docname"])
            if fd is None:
                continue
            alts, mult, ty = fd["alts"], fd["mult"], f["ty"]
            acc = m.acc(c, f["name"])(x)
            if ty == "ast":
                inner = z3.Or(*[self.wf(a, acc, depth - 1, ctx=ctx) for a in alts]) if len(alts) > 1 else self.wf(alts[0], acc, depth - 1, ctx=ctx)
                if mult == "?":
                    conj.append(z3.Or(acc == m.NoneAST, inner))
                else:
                    conj.append(inner)
            elif ty == ("list", "ast"):
                i = z3.Int(f"i!wf{fresh_id()}")
                ln, at = m.lst_funcs("ast")
                e = at(acc, i)
                inner = z3.Or(*[self.wf(a, e, depth - 1, ctx=ctx) for a in alts]) if len(alts) > 1 else self.wf(alts[0], e, depth - 1, ctx=ctx)
                conj.append(z3.ForAll([i], z3.Implies(z3.And(0 <= i, i < ln(acc)), inner), patterns=[at(acc, i)]))
                if mult == "+":
                    conj.append(ln(acc) >= 1)
            elif ty == "int" and f["name"] == "arity":
                conj.append(acc >= 0)
        return z3.And(*conj)
