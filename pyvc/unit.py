"""Units (one real function under a sidecar contract), obligations, discharge and counter-model extraction."""
from __future__ import annotations

import hashlib
import json
import os
import subprocess
import tempfile
import time
import traceback
from dataclasses import dataclass, field
from typing import Any, Callable, Optional

import z3

from .exec import Exec, Raised, guarded_check
from .model import Model
from .state import State, fresh_id
from .values import Fn, ListObj, Obj, Ref, SetObj, SV, Tup, Unsupported

REPO_SRC = os.environ.get("NGO_SRC", "/repo/src")
SCHEMA = os.path.join(os.path.dirname(os.path.dirname(os.path.abspath(__file__))), "build", "schema.json")

UNITS: dict[str, "Unit"] = {}


@dataclass
class Unit:
    uid: str  # e.g. C08.superseeded
    prop: str  # C08
    function: str  # module:qualname of the real function ("" for pure lemmas)
    run: Callable  # run(ctx) -> None
    doc: str = ""
    top_level: bool = True  # False: helper-level facts (a failure is UNDECIDED, not a violation)
    fallback: Optional[dict] = None  # bounded native stand-in used when the changed code left the verifier's reach


def unit(uid, prop, function="", doc="", top_level=True, fallback=None):
    def deco(f):
        UNITS[uid] = Unit(uid, prop, function, f, doc or (f.__doc__ or "").strip(), top_level, {"mirror": fallback} if isinstance(fallback, str) else fallback)
        return f

    return deco


@dataclass
class Obligation:
    name: str
    kind: str  # post | callsite-pre | inv-init | inv-keep | variant | shape | assert | frame | lemma | cover | canary
    hyps: list
    goal: Any  # z3 Bool (for cover/canary: ignored, hyps must be sat)
    inputs: dict = field(default_factory=dict)  # name -> SV (for counter-model extraction)
    replay: Optional[dict] = None  # how to replay natively: {"mirror": name, ...}
    excluded: list = field(default_factory=list)  # known-finding ids whose class was excluded
    source: str = "property"  # property | helper
    hints: list = field(default_factory=list)  # extra constraints tried first when searching candidate counterexamples


class Ctx:
    """what a contract sees"""

    def __init__(self, unit: Unit, known_findings: dict, timeout_ms: int):
        self.unit = unit
        self.m = Model(SCHEMA)
        self.ex = Exec(self.m, REPO_SRC)
        self.obligations: list[Obligation] = []
        self.known = known_findings  # id -> entry (only 'open' ones)
        self.used_findings: set[str] = set()
        self.timeout_ms = timeout_ms
        self.assumptions: list[str] = []
        self.inputs: dict[str, SV] = {}
        self.out_of_reach: list[str] = []
        self.sem_axioms: list = []  # semantic-base axioms: used for discharge only, not for path pruning

    # -- symbolic inputs -----------------------------------------------------------------------
    def sym(self, name, ty) -> SV:
        v = SV(z3.Const(name, self.m.sort(ty)), ty)
        self.inputs[name] = v
        return v

    def state(self) -> State:
        return State()

    def fn(self, module, qualname, env_id=None, bound_self=None) -> Fn:
        f = self.ex.find_function(module, qualname)
        return Fn(f.node, f.module, f.qualname, env_id, bound_self, f.cls, f.is_static)

    def call(self, st, f, args, kwargs=None):
        return self.ex.call_fn(st, f, list(args), dict(kwargs or {}))

    def new_object(self, st, cls, **fields):
        return st.alloc(Obj(cls, tuple(fields.items())))

    def method(self, module, cls, name, self_ref):
        f = self.ex.find_function(module, f"{cls}.{name}")
        return Fn(f.node, f.module, f.qualname, None, None if f.is_static else self_ref, cls, f.is_static)

    def sym_list(self, st, name, elem_ty):
        """a mutable python list with symbolic spine"""
        sv = self.sym(name, ("list", elem_ty))
        return st.alloc(ListObj(sv=sv)), sv

    def sym_set_enum(self, st, name, elem_ty):
        """a python set given by a duplicate-free symbolic enumeration `name` (so counter-models list its elements)"""
        m = self.m
        lst = self.sym(name, ("list", elem_ty))
        ln, at = m.lst_funcs(elem_ty)
        i, j = z3.Int(f"i!{name}"), z3.Int(f"j!{name}")
        x = z3.Const(f"x!{name}", m.sort(elem_ty))
        st.assume(z3.ForAll([i, j], z3.Implies(z3.And(0 <= i, i < j, j < ln(lst.term)), at(lst.term, i) != at(lst.term, j))))
        # the set is *defined* from its enumeration (a lambda term, no array constant and no quantified axioms)
        S = SV(z3.Lambda([x], z3.Exists([i], z3.And(0 <= i, i < ln(lst.term), at(lst.term, i) == x))), ("set", elem_ty))
        return st.alloc(SetObj(sv=S, enum=lst)), lst, S

    def assume_note(self, text):
        if text not in self.assumptions:
            self.assumptions.append(text)

    # -- obligations ---------------------------------------------------------------------------
    def oblige(self, name, st_or_hyps, goal, kind="post", replay=None, exclude=None, source="property", inputs=None, hints=None):
        hyps = list(st_or_hyps.pc) if isinstance(st_or_hyps, State) else list(st_or_hyps)
        excluded = []
        for fid, cond in (exclude or {}).items():
            if fid in self.known:
                hyps.append(z3.Not(cond))
                excluded.append(fid)
                self.used_findings.add(fid)
        self.obligations.append(
            Obligation(f"{self.unit.uid}/{name}", kind, hyps, goal, dict(inputs if inputs is not None else self.inputs), replay, excluded, source, list(hints or []))
        )

    def oblige_steps(self, name, st_or_hyps, steps, final_hyps=None, **kw):
        """cut rule: prove steps[0], then steps[1] with steps[0] as an extra hypothesis, ...; the last step is the goal.
        Every step is an obligation of its own (a lemma is never assumed without having been discharged).
        final_hyps: prove the goal from these facts (a subset of the state's facts) and the lemmas only -- the lemmas
        then summarise the state, which keeps large summary facts out of the last query."""
        hyps = list(st_or_hyps.pc) if isinstance(st_or_hyps, State) else list(st_or_hyps)
        if final_hyps is not None:
            ids = {h.get_id() for h in hyps}
            assert all(h.get_id() in ids for h in final_hyps), "final_hyps must be facts of the state"
        for k, stp in enumerate(steps):
            last = k == len(steps) - 1
            base = list(final_hyps) if (last and final_hyps is not None) else hyps
            self.oblige(name if last else f"{name}.lemma{k}", base + list(steps[:k]), stp, **(kw if last else dict(kw, kind="lemma")))

    def local_var(self, st, name):
        """value of a local variable of the (already returned) function under analysis in state st"""
        for env in reversed(list(st.envs.values())):
            if name in env:
                return env[name]
        raise KeyError(name)

    def cover(self, name, st_or_hyps, extra=None):
        hyps = list(st_or_hyps.pc) if isinstance(st_or_hyps, State) else list(st_or_hyps)
        if extra is not None:
            hyps.append(extra)
        self.obligations.append(Obligation(f"{self.unit.uid}/{name}", "cover", hyps, None, dict(self.inputs)))

    def adopt_engine_obligations(self, source="helper", replay=None):
        """obligations generated inside the executor (loop invariants)"""
        for n, o in enumerate(self.ex.obligations):
            self.obligations.append(
                Obligation(f"{self.unit.uid}/{o['name']}#{n}", o["kind"], o["hyps"], o["goal"], dict(self.inputs), replay, [], source)
            )
        self.ex.obligations = []


# ---------------------------------------------------------------------------------------------
# discharge


def _mk_solver(ctx: Ctx, timeout_ms):
    s = z3.Solver()
    s.set("timeout", timeout_ms)
    for a in ctx.ex.axioms() + ctx.sem_axioms:
        s.add(a)
    return s


def cvc5_check(smt2: str, timeout_s: int) -> str:
    """second opinion through the cvc5 CLI; returns sat | unsat | unknown"""
    try:
        with tempfile.NamedTemporaryFile("w", suffix=".smt2", delete=False, dir=os.environ.get("VERIF_SCRATCH")) as f:
            f.write("(set-logic ALL)\n" + smt2)
            path = f.name
        try:
            r = subprocess.run(
                ["/usr/bin/cvc5", "--lang=smt2", f"--tlimit={timeout_s * 1000}", "--strings-exp", "--finite-model-find", path],
                capture_output=True,
                text=True,
                timeout=timeout_s + 5,
            )
            out = r.stdout.strip().splitlines()
            return out[0] if out and out[0] in ("sat", "unsat", "unknown") else "unknown"
        finally:
            os.unlink(path)
    except Exception:  # pylint: disable=broad-except
        return "unknown"


def discharge(ctx: Ctx, ob: Obligation, use_cvc5_always=False, cheap=False) -> dict:
    """cheap=True: this family already has unresolved members in this unit -- no retry, no candidate search"""
    t0 = time.time()
    s = _mk_solver(ctx, ctx.timeout_ms if not cheap else min(ctx.timeout_ms, 3000))
    for h in ob.hyps:
        s.add(h)
    rec: dict[str, Any] = {"name": ob.name, "kind": ob.kind, "backend": "z3-" + z3.get_version_string(), "source": ob.source}
    if ob.excluded:
        rec["excluded_known_findings"] = ob.excluded
    if ob.kind in ("cover", "canary"):
        # reachability / vacuity guard.  Satisfiability with quantified axioms is not decidable: E-matching only
        # (mbqi off) refutes a contradictory precondition; `unknown` then means "no contradiction derivable".
        s2 = z3.Solver()
        s2.set("timeout", 1500)
        s2.set("smt.mbqi", False)
        for a in ctx.ex.axioms() + ctx.sem_axioms:
            s2.add(a)
        for h in ob.hyps:
            s2.add(h)
        r = guarded_check(s2, 1500)
        rec["verdict"] = {"sat": "reachable", "unsat": "VACUOUS", "unknown": "reachable"}[str(r)]
        if str(r) == "unknown":
            rec["note"] = "no contradiction by E-matching (quantified axioms present)"
        rec["ms"] = int((time.time() - t0) * 1000)
        return rec
    s.add(z3.Not(ob.goal))
    r = guarded_check(s, ctx.timeout_ms if not cheap else min(ctx.timeout_ms, 3000))
    if r == z3.unknown and "incomplete" in s.reason_unknown() and not cheap:
        # z3 gave up without exhausting its budget (E-matching found no contradiction under this instantiation order):
        # small portfolio of random seeds; `unsat` from any run is a proof
        # (a quick give-up costs milliseconds: up to 32 seeds, as long as the portfolio stays within one budget)
        t_port = time.time()
        for seed in range(1, 33):
            if (time.time() - t_port) * 1000 > ctx.timeout_ms:
                break
            s2 = _mk_solver(ctx, ctx.timeout_ms)
            s2.set("random_seed", seed)
            s2.set("smt.random_seed", seed)
            for h in ob.hyps:
                s2.add(h)
            s2.add(z3.Not(ob.goal))
            r2 = guarded_check(s2, ctx.timeout_ms)
            if r2 != z3.unknown:
                r, s = r2, s2
                rec["portfolio_seed"] = seed
                break
    if r == z3.unknown and not cheap:
        # one retry with a three times larger budget before the obligation counts as not re-established
        rec["reason_unknown"] = s.reason_unknown()
        s.set("timeout", ctx.timeout_ms * 3)
        r = guarded_check(s, ctx.timeout_ms * 3)
        if r == z3.unknown:
            rec["reason_unknown"] = s.reason_unknown()
    verdict = str(r)
    if verdict == "unknown" or use_cvc5_always:
        r2 = cvc5_check(s.to_smt2(), max(2, (ctx.timeout_ms if not cheap else 3000) // 1000))
        if verdict == "unknown" and r2 in ("sat", "unsat"):
            verdict = r2
            rec["backend"] = "cvc5-1.0.3(cli)"
        elif verdict != "unknown" and r2 in ("sat", "unsat") and r2 != verdict:
            rec["solver_disagreement"] = {"z3": verdict, "cvc5": r2}
            verdict = "disagree"
        elif use_cvc5_always:
            rec["cvc5"] = r2
    if verdict == "unsat" and use_cvc5_always:
        # thorough tier: the proof must be reproducible under other instantiation orders (two more random seeds);
        # a `sat` answer there is a disagreement of the solver with itself and is reported as a checker problem
        stable = []
        for seed in (11, 23):
            s3 = _mk_solver(ctx, ctx.timeout_ms)
            s3.set("random_seed", seed)
            s3.set("smt.random_seed", seed)
            for h in ob.hyps:
                s3.add(h)
            s3.add(z3.Not(ob.goal))
            stable.append(str(guarded_check(s3, ctx.timeout_ms)))
        rec["reproved_with_other_seeds"] = stable
        if "sat" in stable:
            rec["solver_disagreement"] = {"z3": "unsat", "z3-other-seed": "sat"}
            verdict = "disagree"
    rec["verdict"] = {"unsat": "discharged", "sat": "failed", "unknown": "unknown", "disagree": "disagree"}[verdict]
    if verdict == "sat" and str(r) == "sat":
        try:
            rec["model"] = extract_model(ctx, s.model(), ob.inputs)
        except Exception as e:  # pylint: disable=broad-except
            rec["model_error"] = repr(e)
        if ob.replay is not None and not cheap and "model" in rec:
            # further models (non-empty sequences first) in case the first one is degenerate for the native replay
            try:
                rec["candidates"] = [rec["model"]] + candidate_models(ctx, ob, 6)
            except Exception as e:  # pylint: disable=broad-except
                rec["model_error"] = repr(e)
    elif verdict in ("unknown", "sat") and ob.replay is not None and not cheap:
        # quantified hypotheses keep z3 from confirming satisfiability.  Look for *candidate* counterexamples in a
        # bounded relaxation (index quantifiers instantiated for 0..2, list lengths <= 3, other quantifiers dropped).
        # A candidate counts for nothing unless the native replay confirms it on the real code.
        try:
            cands = candidate_models(ctx, ob, 10 if ctx.timeout_ms <= 10000 else 40)
        except Exception as e:  # pylint: disable=broad-except
            cands = []
            rec["model_error"] = repr(e)
        if cands:
            rec["candidates"] = cands
            rec["model"] = cands[0]
            rec["model_is_candidate"] = True
            if verdict == "unknown":
                rec["verdict"] = "failed-candidate"
    if ob.replay is not None:
        rec["replay"] = ob.replay
    rec["ms"] = int((time.time() - t0) * 1000)
    if rec["verdict"] != "discharged" or os.environ.get("VERIF_KEEP_SMT"):
        rec["smt2_sha"] = hashlib.sha1(s.to_smt2().encode()).hexdigest()
    return rec


def _bounded(f, rng=(0, 1, 2), pos=True):
    """bounded relaxation of a formula: integer-index universals (in positive polarity) are instantiated for the
    indices in rng; every other quantified subformula is abstracted by a fresh Boolean unknown"""
    if not _has_quantifier(f):
        return f
    if z3.is_quantifier(f):
        universal = f.is_forall() if pos else f.is_exists()
        if universal and all(f.var_sort(i) == z3.IntSort() for i in range(f.num_vars())):
            import itertools

            outs = []
            for vals in itertools.product(rng, repeat=f.num_vars()):
                inst = z3.substitute_vars(f.body(), *[z3.IntVal(v) for v in reversed(vals)])
                outs.append(_bounded(inst, rng, pos))
            return z3.And(*outs) if pos else z3.Or(*outs)
        return z3.Bool(f"q!abs{fresh_id()}")
    if z3.is_not(f):
        return z3.Not(_bounded(f.arg(0), rng, not pos))
    if z3.is_and(f):
        return z3.And(*[_bounded(c, rng, pos) for c in f.children()])
    if z3.is_or(f):
        return z3.Or(*[_bounded(c, rng, pos) for c in f.children()])
    if z3.is_implies(f):
        return z3.Implies(_bounded(f.arg(0), rng, not pos), _bounded(f.arg(1), rng, pos))
    if z3.is_app(f) and f.decl().kind() == z3.Z3_OP_ITE and f.sort() == z3.BoolSort() and not _has_quantifier(f.arg(0)):
        return z3.If(f.arg(0), _bounded(f.arg(1), rng, pos), _bounded(f.arg(2), rng, pos))
    return z3.Bool(f"q!abs{fresh_id()}")


def _collect(f, pred, out, seen):
    stack = [f]
    while stack:
        x = stack.pop()
        if x.get_id() in seen:
            continue
        seen.add(x.get_id())
        if z3.is_quantifier(x):
            continue
        if pred(x):
            out.append(x)
        stack.extend(x.children())


def _is_enum_sort(srt):
    return srt.kind() == z3.Z3_DATATYPE_SORT and srt.num_constructors() > 1 and all(srt.constructor(i).arity() == 0 for i in range(srt.num_constructors()))


CANDIDATE_SEARCH_S = 90.0


def candidate_models(ctx: Ctx, ob: Obligation, n: int):
    """bounded search for candidate counter-models; gives up after CANDIDATE_SEARCH_S seconds with what it has"""
    deadline = time.time() + CANDIDATE_SEARCH_S
    g = z3.Solver()
    g.set("timeout", ctx.timeout_ms)
    fs = [_bounded(a) for a in ctx.ex.axioms() + ob.hyps] + [_bounded(z3.Not(ob.goal))]
    lens, feats, seen1, seen2 = [], [], set(), set()
    rec_ids = ctx.m.recognizer_ids
    for f in fs:
        g.add(f)
        _collect(f, lambda x: z3.is_app(x) and x.decl().name().startswith("len_"), lens, seen1)
        _collect(
            f,
            lambda x: z3.is_app(x) and x.num_args() > 0 and (_is_enum_sort(x.sort()) or (x.decl().get_id() in rec_ids)),
            feats,
            seen2,
        )
    for l in lens:
        g.add(l >= 0, l <= 3)
    # case splitting: an enum-valued feature value under which the obligation IS provable cannot occur in a counterexample
    learned = []
    enum_feats = [f for f in feats if _is_enum_sort(f.sort())][:10]
    for f in enum_feats:
        srt = f.sort()
        if time.time() > deadline - CANDIDATE_SEARCH_S / 2:
            break  # at most half of the time for learning
        for ci in range(srt.num_constructors()):
            val = srt.constructor(ci)()
            s = _mk_solver(ctx, 1500)
            for h in ob.hyps:
                s.add(h)
            s.add(f == val, z3.Not(ob.goal))
            if guarded_check(s, 1500) == z3.unsat:
                learned.append(f != val)
    for c in learned:
        g.add(c)
    feats = feats[:80]
    out = []
    # generic heuristic: counterexamples usually need non-empty sequences -- try those first
    hints = list(ob.hints)
    if lens:
        hints.append(z3.And(*[l >= 1 for l in lens]))
        for l in lens[:8]:
            hints.append(l >= 2)
    for h in hints:
        if time.time() > deadline:
            break
        g.push()
        g.add(h)
        k = 0
        while k < (1 if len(hints) > 4 else 3) and guarded_check(g, ctx.timeout_ms) == z3.sat:
            mdl = g.model()
            out.append(extract_model(ctx, mdl, ob.inputs))
            k += 1
            if not feats:
                break
            g.add(z3.Or(*[f != mdl.eval(f, model_completion=True) for f in feats]))
        g.pop()
    while len(out) < n and time.time() < deadline and guarded_check(g, ctx.timeout_ms) == z3.sat:
        mdl = g.model()
        out.append(extract_model(ctx, mdl, ob.inputs))
        if not feats:
            break
        g.add(z3.Or(*[f != mdl.eval(f, model_completion=True) for f in feats]))
    return out


def _has_quantifier(e) -> bool:
    seen = set()
    stack = [e]
    while stack:
        x = stack.pop()
        if x.get_id() in seen:
            continue
        seen.add(x.get_id())
        if z3.is_quantifier(x):
            return True
        stack.extend(x.children())
    return False


def sample_smt2(ctx: Ctx, ob: Obligation, limit=4000) -> str:
    s = z3.Solver()
    for h in ob.hyps:
        s.add(h)
    if ob.goal is not None:
        s.add(z3.Not(ob.goal))
    txt = s.to_smt2()
    return txt if len(txt) <= limit else txt[:limit] + f"\n; ... truncated ({len(txt)} chars)"


# ---------------------------------------------------------------------------------------------
# counter-model -> JSON


def extract_model(ctx: Ctx, model, inputs: dict, max_len=6) -> dict:
    m = ctx.m
    strs: dict[str, str] = {}

    def ev(t):
        return model.eval(t, model_completion=True)

    def str_val(t):
        v = ev(t)
        lit = None
        for s, c in m._strlits.items():
            if ev(c).eq(v):
                lit = s
                break
        if lit is not None:
            return lit
        key = str(v)
        if key not in strs:
            strs[key] = f"s{len(strs)}"
        return strs[key]

    def conv(t, ty, depth=0):
        if depth > 12:
            return {"too_deep": True}
        if ty == "int":
            return ev(t).as_long()
        if ty == "bool":
            return z3.is_true(ev(t))
        if ty == "str":
            return str_val(t)
        if isinstance(ty, tuple) and ty[0] == "enum":
            return str(ev(t)).split("_", 1)[1]
        if ty == "sym":
            v = ev(t)
            S = m.Sym
            if z3.is_true(ev(S.is_SymNumber(v))):
                return {"sym": "Number", "number": ev(S.sym_number(v)).as_long()}
            if z3.is_true(ev(S.is_SymInfimum(v))):
                return {"sym": "Infimum"}
            if z3.is_true(ev(S.is_SymSupremum(v))):
                return {"sym": "Supremum"}
            if z3.is_true(ev(S.is_SymString(v))):
                return {"sym": "String", "string": str_val(S.sym_string(v))}
            return {"sym": "Function", "name": str_val(S.sym_name(v))}
        if ty == "ast":
            v = ev(t)
            if z3.is_true(ev(m.AST.is_NoneAST(v))):
                return None
            for c in m.ctor_names:
                if z3.is_true(ev(m.is_ctor(c, v))):
                    d = {"ast": c}
                    for f in m.fields[c]:
                        d[f["name"]] = conv(m.acc(c, f["name"])(v), f["ty"], depth + 1)
                    return d
            return {"ast": "?"}
        if isinstance(ty, tuple) and ty[0] == "list":
            ln, at = m.lst_funcs(ty[1])
            n = ev(ln(t)).as_long()
            return [conv(at(t, i), ty[1], depth + 1) for i in range(max(0, min(n, max_len)))] + (["..."] if n > max_len else [])
        if isinstance(ty, tuple) and ty[0] == "rec":
            _sort, fields = m.records[ty[1]]
            return {"rec": ty[1], **{f: conv(m.rec_acc(ty[1], f)(t), fty, depth + 1) for f, fty in fields}}
        if isinstance(ty, tuple) and ty[0] == "tuple":
            _s, _mk, accs = m.tuple_parts(ty)
            return [conv(a(t), x, depth + 1) for a, x in zip(accs, ty[1:])]
        if isinstance(ty, tuple) and ty[0] == "set":
            arr = ev(t)
            elems = []
            default = None
            while z3.is_app(arr) and arr.decl().kind() == z3.Z3_OP_STORE:
                if z3.is_true(arr.arg(2)):
                    elems.append(conv(arr.arg(1), ty[1], depth + 1))
                arr = arr.arg(0)
            if z3.is_app(arr) and arr.decl().kind() == z3.Z3_OP_CONST_ARRAY:
                default = z3.is_true(arr.arg(0))
            return {"set": elems, "default": default, "raw": str(arr)[:200] if default is None else None}
        return str(ev(t))[:200]

    out = {}
    for name, sv in inputs.items():
        try:
            out[name] = conv(sv.term, sv.ty)
        except Exception as e:  # pylint: disable=broad-except
            out[name] = {"error": repr(e)}
    return out


# ---------------------------------------------------------------------------------------------
FAILURE_BUDGET_S = 100.0


def run_unit(uid: str, known_findings: dict, timeout_ms: int, both_solvers=False) -> dict:
    """executed in a worker process: symbolic execution + discharge of one unit; returns a JSON-able record"""
    u = UNITS[uid]
    t0 = time.time()
    rec: dict[str, Any] = {"unit": uid, "property": u.prop, "function": u.function, "doc": u.doc, "top_level": u.top_level}
    try:
        ctx = Ctx(u, known_findings, timeout_ms)
        u.run(ctx)
        ctx.adopt_engine_obligations()
        # a raising path is replayed with the unit's own mirror: calling the real function on the counter-model must
        # raise (the mirror runner turns an exception into a confirmation when `no_exception` is set)
        unit_replay = next((o.replay for o in ctx.obligations if o.replay), None)
        if unit_replay is not None:
            for o in ctx.obligations:
                if o.replay is None and ("/no-raise" in o.name or "no-raise" in o.name.split("/")[-1]):
                    o.replay = dict(unit_replay, no_exception=True)
        rec["exec_s"] = round(time.time() - t0, 3)
        rec["functions"] = {k: {"file": v[0], "line": v[1]} for k, v in ctx.ex.functions_seen.items()}
        rec["obligations"] = []
        open_families: dict[str, int] = {}
        spent_on_failures = 0.0  # seconds; once a unit has burnt its budget on failing obligations the rest go cheap
        for ob in ctx.obligations:
            fam = ob.name.split("#")[0]
            t1 = time.time()
            r = discharge(ctx, ob, both_solvers, cheap=open_families.get(fam, 0) >= 2 or spent_on_failures > FAILURE_BUDGET_S)
            if r["verdict"] not in ("discharged", "reachable"):
                open_families[fam] = open_families.get(fam, 0) + 1
                spent_on_failures += time.time() - t1
            rec["obligations"].append(r)
        rec["samples"] = [sample_smt2(ctx, ob, 2500) for ob in ctx.obligations[:1] if ob.kind not in ("cover", "canary")]
        rec["assumptions"] = ctx.assumptions
        rec["notes"] = ctx.ex.notes
        rec["used_findings"] = sorted(ctx.used_findings)
        rec["feasibility_solver_calls"] = ctx.ex.solver_calls
        rec["status"] = "ok"
    except Unsupported as e:
        rec["status"] = "out-of-reach"
        rec["reason"] = str(e)
        rec["obligations"] = []
    except Exception:  # pylint: disable=broad-except
        rec["status"] = "crash"
        rec["reason"] = traceback.format_exc()
        rec["obligations"] = []
    rec["wall_s"] = round(time.time() - t0, 3)
    return rec
