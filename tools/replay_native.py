#!/venv/bin/python
"""native replay of a counter-model against the real code (runs under /venv/bin/python)"""
import json
import sys

sys.path.insert(0, "/verif")
from native import mirrors  # noqa: E402

req = json.load(sys.stdin)
try:
    res = mirrors.run(req)
except Exception as e:  # pylint: disable=broad-except
    import traceback

    res = {"confirmed": None, "error": repr(e), "trace": traceback.format_exc()[-1500:]}
print(json.dumps(res, default=str))
