#!/bin/bash
# usage: verify_seed.sh <seed dir under /verif/seeded> <scratch worktree>
# confirms: patch applies, full test suite passes with it, demo fails with it and passes without it
set -u
SEED=/verif/seeded/$1; WT=$2
cd "$WT" || exit 2
git checkout -q -- . ; git apply "$SEED/patch.diff" || { echo "patch does not apply"; exit 2; }
PYTHONPATH=$WT/src /venv/bin/python -m pytest -q -p no:cacheprovider -x > /tmp/seedtest_$1.txt 2>&1; T=$?
PYTHONPATH=$WT/src /venv/bin/python "$SEED/demo.py" > /tmp/seeddemo_with_$1.txt 2>&1; D1=$?
git checkout -q -- .
PYTHONPATH=$WT/src /venv/bin/python "$SEED/demo.py" > /tmp/seeddemo_without_$1.txt 2>&1; D0=$?
echo "$1: tests_rc=$T ($(tail -1 /tmp/seedtest_$1.txt)) demo_with_patch_rc=$D1 demo_without_patch_rc=$D0"
