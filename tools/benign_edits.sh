#!/bin/bash
# harmless edits: each must leave the checks at exit 0
run() { # name prop sedfile-expression file
  rm -rf /tmp/mut && mkdir -p /tmp/mut && cp -r /repo/src /tmp/mut/src
  python3 - "$3" "$4" <<'PY'
import sys,re
expr,f=sys.argv[1],sys.argv[2]
s=open(f).read(); old,new=expr.split('=>',1); assert old in s, old; open(f,'w').write(s.replace(old,new))
PY
  (cd /tmp/mut && PYTHONPATH=/tmp/mut/src /venv/bin/python -c "import ngo.api" ) || echo "IMPORT FAIL"
  NGO_SRC=/tmp/mut/src timeout 1500 /verif/check.py $2 --no-evidence > /tmp/benign_$1.txt 2>&1; echo "$1 ($2): rc=$? $(grep -E '^(VIOL|UNDEC|CHECK)' /tmp/benign_$1.txt | head -1 | cut -c1-150)"
}
run rename_superseeded C08 'lhs_symbol = lhs.atom.symbol=>lhs_symbol = lhs.atom.symbol  # left symbol' /tmp/mut/src/ngo/cleanup.py
run reorder_superseeded C08 '        lhs_symbol = lhs.atom.symbol
        lhs_pred = Predicate(lhs_symbol.name, len(lhs_symbol.arguments))
        rhs_symbol = rhs.atom.symbol
        rhs_pred = Predicate(rhs_symbol.name, len(rhs_symbol.arguments))=>        rhs_symbol = rhs.atom.symbol
        rhs_pred = Predicate(rhs_symbol.name, len(rhs_symbol.arguments))
        lhs_symbol = lhs.atom.symbol
        lhs_pred = Predicate(lhs_symbol.name, len(lhs_symbol.arguments))' /tmp/mut/src/ngo/cleanup.py
run rename_local_enable C19 '            values = sorted(values + DEFAULT_OPTIONS)

        setattr(namespace, self.dest, values)=>            values = sorted(values + DEFAULT_OPTIONS)
        result = values
        setattr(namespace, self.dest, result)' /tmp/mut/src/ngo/utils/parser.py
run logging_main C19 '    prg: list[AST] = []=>    logging.debug("reading program from stdin")
    prg: list[AST] = []' /tmp/mut/src/ngo/__main__.py
run helper_guards C05 '        if bodyagg.right_guard and bodyagg.left_guard is None:=>        only_right = bodyagg.right_guard and bodyagg.left_guard is None
        if only_right:' /tmp/mut/src/ngo/normalize.py
run rename_loopvar_closure C08 '            for lhs in closure:
                for rhs in closure:
                    if lhs.body_pred.sign == Sign.NoSign and lhs.body_pred.pred == rhs.head_pred:
                        var_map = [lhs.var_map[m] for m in rhs.var_map]
                        new_relations.add(Mapping(lhs.head_pred, rhs.body_pred, tuple(var_map)))=>            for first in closure:
                for second in closure:
                    if first.body_pred.sign == Sign.NoSign and first.body_pred.pred == second.head_pred:
                        positions = [first.var_map[m] for m in second.var_map]
                        new_relations.add(Mapping(first.head_pred, second.body_pred, tuple(positions)))' /tmp/mut/src/ngo/cleanup.py
run rename_carried_newpred C07 '        p = Predicate(similar, arity)
        counter = 1
        while p in self.predicates:
            p = Predicate(similar + str(counter), arity)
            counter += 1
        self.predicates.add(p)
        return p=>        cand = Predicate(similar, arity)
        counter = 1
        while cand in self.predicates:
            cand = Predicate(similar + str(counter), arity)
            counter += 1
        self.predicates.add(cand)
        return cand' /tmp/mut/src/ngo/utils/globals.py
# --- C15 / C14 / C12 units written later
run inline_rename_local C15 '        replace_terms = [stm.weight, stm.priority] + list(stm.terms)=>        own_tuple = [stm.weight, stm.priority] + list(stm.terms)
        replace_terms = own_tuple' /tmp/mut/src/ngo/inline.py
run inline_reorder_guards C15 '        if agg.function == AggregateFunction.SumPlus and not self._nonnegative_weights(agg):
            return [stm]
        # an element without a tuple has no weight that could be moved
        if any(map(lambda elem: not elem.terms, agg.elements)):
            return [stm]=>        # an element without a tuple has no weight that could be moved
        if any(map(lambda elem: not elem.terms, agg.elements)):
            return [stm]
        if agg.function == AggregateFunction.SumPlus and not self._nonnegative_weights(agg):
            return [stm]' /tmp/mut/src/ngo/inline.py
run inline_log_line C15 '            rest_elems = [elem for elem in atom.elements if elem != replace_elem]=>            log.debug("checking the other elements")
            rest_elems = [elem for elem in atom.elements if elem != replace_elem]' /tmp/mut/src/ngo/inline.py
run inline_rename_loopvar C15 '        for elem in atom.elements:
            if elem != replace_elem:
                max_arity = max(max_arity, len(elem.terms))=>        for other in atom.elements:
            if other != replace_elem:
                max_arity = max(max_arity, len(other.terms))' /tmp/mut/src/ngo/inline.py
run to_sympy_helper C14 '        if neg and agg.right_guard:  # don=>        two_sided_negation = neg and agg.right_guard
        if two_sided_negation:  # don' /tmp/mut/src/ngo/math_simplification.py
run minmax_helper C12 '        if agg.sign != Sign.NoSign:
            return [rule]  # the chain=>        negated = agg.sign != Sign.NoSign
        if negated:
            return [rule]  # the chain' /tmp/mut/src/ngo/minmax_aggregates.py
