#!/venv/bin/python
"""replay of a recorded known-finding witness (runs under /venv/bin/python)"""
import json
import sys

sys.path.insert(0, "/verif")
from native import witnesses  # noqa: E402

req = json.load(sys.stdin)
try:
    res = witnesses.run(req)
except Exception as e:  # pylint: disable=broad-except
    import traceback

    res = {"reproduced": None, "error": repr(e), "trace": traceback.format_exc()[-1500:]}
print(json.dumps(res, default=str))
