#!/bin/bash
# apply every seeded change to /repo, run the check of its property, undo; prints one line per seed
cd /verif
for d in seeded/*/; do
  id=$(basename $d); prop=${id%%-*}
  git -C /repo checkout -q -- . ; git -C /repo apply /verif/$d/patch.diff || { echo "$id: patch does not apply"; continue; }
  timeout 1500 ./check.py $prop --no-evidence > /tmp/seedrun_$id.txt 2>&1; rc=$?
  git -C /repo checkout -q -- .
  echo "$id rc=$rc $(grep -c '^VIOLATION' /tmp/seedrun_$id.txt) violation line(s): $(grep '^VIOLATION' /tmp/seedrun_$id.txt | head -1 | cut -c1-150)"
done
git -C /repo status --short | head -3
