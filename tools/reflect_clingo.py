#!/venv/bin/python
"""Reflect clingo.ast into a JSON schema (run under /venv/bin/python).

Output (stdout or argv[1]):
  constructors: {Name: [{name, type, mult}]}   mult in "", "?", "*", "+"
                type is a nonterminal name, a constructor name, or a primitive
                (str, int, bool, Location, clingo.Symbol, <EnumName>)
  nonterminals: {name: [alternative, ...]}      alternative = nonterminal or constructor name
  literal_atom_alts / refinements: constructor fields that are refined inline
        (e.g. Literal.atom inside `literal` is Comparison|BooleanConstant|symbolic_atom,
         inside body_literal it is body_atom)
  enums: {EnumName: [[member, value], ...]}
  signatures: {Name: [param, ...]}  from inspect.signature (cross-check of the doc)
Everything is derived from clingo's own documentation string and inspect; nothing
is hand-written, so a clingo upgrade that changes the grammar changes the model.
"""
import inspect
import json
import re
import sys

import clingo
import clingo.ast as A


def tokenize(src):
    toks = re.findall(r"[A-Za-z_][A-Za-z_0-9.]*|[()|,:=?*+]", src)
    return toks


class P:
    def __init__(self, toks):
        self.t = toks
        self.i = 0
        self.constructors = {}
        self.nonterminals = {}
        self.refined = []  # (context nonterminal, constructor, field, [alts])

    def peek(self, k=0):
        return self.t[self.i + k] if self.i + k < len(self.t) else None

    def eat(self, x=None):
        tok = self.t[self.i]
        if x is not None and tok != x:
            raise SyntaxError(f"expected {x} got {tok} at {self.i}: {self.t[max(0,self.i-5):self.i+5]}")
        self.i += 1
        return tok

    def parse(self):
        while self.peek() is not None:
            name = self.eat()
            self.eat("=")
            alts = self.alts(name)
            self.nonterminals[name] = alts

    def alts(self, ctx):
        res = [self.alt(ctx)]
        while self.peek() == "|":
            self.eat("|")
            res.append(self.alt(ctx))
        return res

    def alt(self, ctx):
        """an alternative: identifier, optionally followed by a parenthesised field list (constructor def)"""
        name = self.eat()
        if self.peek() == "(":
            self.eat("(")
            fields = []
            while True:
                fname = self.eat()
                self.eat(":")
                ftype = self.alts(ctx)  # may be inline constructor definitions / alternatives
                mult = ""
                if self.peek() in ("?", "*", "+"):
                    mult = self.eat()
                fields.append({"name": fname, "type": ftype, "mult": mult})
                if self.peek() == ",":
                    self.eat(",")
                    continue
                break
            self.eat(")")
            flat = []
            for f in fields:
                flat.append({"name": f["name"], "alts": f["type"], "mult": f["mult"]})
            if name in self.constructors:
                # same constructor described twice (e.g. Literal in `literal` and `body_literal`,
                # SymbolicTerm/Variable in term and theory_term): merge alternatives per field
                old = {f["name"]: f for f in self.constructors[name]}
                for f in flat:
                    if f["name"] in old:
                        for a in f["alts"]:
                            if a not in old[f["name"]]["alts"]:
                                old[f["name"]]["alts"].append(a)
                        assert old[f["name"]]["mult"] == f["mult"], (name, f)
                    else:
                        self.constructors[name].append(f)
                self.refined.append({"context": ctx, "constructor": name, "fields": flat})
            else:
                self.constructors[name] = flat
                self.refined.append({"context": ctx, "constructor": name, "fields": flat})
        # next token that begins a new production: IDENT '='
        return name


def main():
    doc = A.__doc__
    blocks = re.findall(r"```\n(.*?)```", doc, re.S)
    grammar = blocks[0]
    grammar = re.sub(r"#.*", "", grammar)
    toks = tokenize(grammar)
    # split productions: a production starts at IDENT '=' ; the parser handles that since
    # alternatives never contain '='
    p = P(toks)
    # alt() must not swallow the next production's name: handle by pre-splitting
    prods = []
    start = 0
    for k in range(1, len(toks) - 1):
        if toks[k + 1] == "=" and re.match(r"[a-z_]+$", toks[k]):
            prods.append(toks[start:k])
            start = k
    prods.append(toks[start:])
    for pr in prods:
        q = P(pr)
        q.constructors = p.constructors
        q.nonterminals = p.nonterminals
        q.refined = p.refined
        q.parse()
    enums = {}
    for n in [
        "Sign",
        "ComparisonOperator",
        "AggregateFunction",
        "UnaryOperator",
        "BinaryOperator",
        "ASTType",
        "TheorySequenceType",
        "TheoryOperatorType",
        "TheoryAtomType",
        "CommentType",
    ]:
        if hasattr(A, n):
            enums[n] = [[m.name, int(m.value)] for m in sorted(getattr(A, n), key=lambda m: int(m.value))]
    enums["SymbolType"] = [[m.name, int(m.value)] for m in sorted(clingo.SymbolType, key=lambda m: int(m.value))]
    sigs = {}
    for name in p.constructors:
        fn = getattr(A, name, None)
        if fn is None:
            continue
        sigs[name] = [
            {"name": k, "ann": str(v.annotation)} for k, v in inspect.signature(fn).parameters.items()
        ]
    # cross-check: doc field names == signature parameter names
    mismatches = []
    for name, fields in p.constructors.items():
        if name in sigs:
            a = [f["name"] for f in fields]
            b = [s["name"] for s in sigs[name]]
            if a != b:
                mismatches.append([name, a, b])
    out = {
        "clingo_version": clingo.__version__,
        "constructors": p.constructors,
        "nonterminals": p.nonterminals,
        "refined": p.refined,
        "enums": enums,
        "signatures": sigs,
        "doc_vs_signature_mismatches": mismatches,
    }
    text = json.dumps(out, indent=1, sort_keys=True)
    if len(sys.argv) > 1:
        with open(sys.argv[1], "w", encoding="utf8") as f:
            f.write(text)
    else:
        print(text)


if __name__ == "__main__":
    main()
