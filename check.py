#!/usr/bin/env python3-vt
"""check.py <Cxx> [--tier quick|thorough] [--unit UID] [--replay FILE]

Contract-based deductive check of one property of potassco/ngo (see DESIGN.md).
Exit codes: 0 held | 1 VIOLATION | 2 undecided | 3 checker problem (crash, vacuity, zero obligations).
"""
from __future__ import annotations

import argparse
import importlib
import json
import multiprocessing as mp
import os
import shutil
import subprocess
import sys
import tempfile
import time

HERE = os.path.dirname(os.path.abspath(__file__))
sys.path.insert(0, HERE)
VENV_PY = "/venv/bin/python"
REPO = os.environ.get("NGO_REPO", "/repo")
os.environ.setdefault("NGO_SRC", os.path.join(REPO, "src"))

PROPERTY_MODULES = {
    "C03": ["contracts.c03"],
    "C04": ["contracts.c04"],
    "C05": ["contracts.c05"],
    "C07": ["contracts.c07"],
    "C08": ["contracts.c08"],
    "C09": ["contracts.c09"],
    "C10": ["contracts.c10"],
    "C11": ["contracts.c11"],
    "C12": ["contracts.c12"],
    "C13": ["contracts.c13"],
    "C14": ["contracts.c14"],
    "C15": ["contracts.c15"],
    "C16": ["contracts.c16"],
    "C18": ["contracts.c18"],
    "C19": ["contracts.c19"],
}


# bounded native stand-ins for the parts of a property that are NOT under contract (listed as unverified in DESIGN.md):
# differential runs of the real code against clingo on the small corpus of native/corpus.py.  Labelled bounded in the
# evidence and never counted among the discharged obligations; a *found* failing input is reported as a VIOLATION.
STANDINS = {
    "C03": [{"mirror": "corpus_no_exception"}, {"mirror": "generated_no_exception"}],
    "C04": [{"mirror": "valid_output_bounded"}],
    "C05": [{"mirror": "corpus", "trait": "none"}, {"mirror": "generated", "trait": "none"}],
    "C08": [{"mirror": "corpus", "trait": "cleanup"}, {"mirror": "generated", "trait": "cleanup"}],
    "C09": [{"mirror": "corpus", "trait": "unused"}, {"mirror": "interface_positions"}, {"mirror": "remove_unused"}, {"mirror": "generated", "trait": "unused"}],
    "C10": [{"mirror": "corpus", "trait": "duplication"}, {"mirror": "generated", "trait": "duplication"}],
    "C11": [{"mirror": "corpus", "trait": "symmetry"}, {"mirror": "generated", "trait": "symmetry"}],
    "C12": [{"mirror": "corpus", "trait": "minmax_chains"}, {"mirror": "generated", "trait": "minmax_chains"}],
    "C13": [{"mirror": "corpus", "trait": "sum_chains"}, {"mirror": "generated", "trait": "sum_chains"}],
    "C14": [{"mirror": "corpus", "trait": "math"}, {"mirror": "to_sympy"}, {"mirror": "generated", "trait": "math"}],
    "C15": [{"mirror": "corpus", "trait": "inline"}, {"mirror": "generated", "trait": "inline"}],
    "C16": [{"mirror": "corpus", "trait": "projection"}, {"mirror": "generated", "trait": "projection"}],
    "C18": [{"mirror": "auto_detect_bounded"}],
    "C19": [{"mirror": "verify_enable_bounded"}, {"mirror": "main_wiring"}, {"mirror": "predicate_list_bounded"}],
}


def reflect():
    os.makedirs(os.path.join(HERE, "build"), exist_ok=True)
    out = os.path.join(HERE, "build", "schema.json")
    r = subprocess.run([VENV_PY, os.path.join(HERE, "tools", "reflect_clingo.py"), out], capture_output=True, text=True)
    if r.returncode != 0:
        print("reflect_clingo failed:", r.stderr, file=sys.stderr)
        sys.exit(3)
    return out


def load_known(prop):
    path = os.path.join(HERE, "known_findings.json")
    if not os.path.exists(path):
        return {}, []
    with open(path, encoding="utf8") as f:
        data = json.load(f)
    open_ = {e["id"]: e for e in data.get("findings", []) if e["property"] == prop and e.get("status") == "open"}
    fixed = [e for e in data.get("findings", []) if e["property"] == prop and e.get("status") == "fixed"]
    return open_, fixed


def load_baseline():
    path = os.path.join(HERE, "baseline_obligations.json")
    if not os.path.exists(path):
        return set()
    with open(path, encoding="utf8") as f:
        return set(json.load(f)["families"])


def family(name):
    return name.split("#")[0]


def _worker(args):
    uid, known, timeout_ms, both = args
    from pyvc.unit import run_unit

    return run_unit(uid, known, timeout_ms, both)


def native(script, payload, timeout=90):
    """run a /verif/tools script under the repo's interpreter with a JSON payload on stdin"""
    env = dict(os.environ)
    env["PYTHONPATH"] = os.environ["NGO_SRC"] + os.pathsep + HERE
    env["PYTHONHASHSEED"] = "0"
    try:
        r = subprocess.run([VENV_PY, os.path.join(HERE, "tools", script)], input=json.dumps(payload), capture_output=True, text=True, timeout=timeout, env=env)
    except subprocess.TimeoutExpired:
        return {"error": "native helper timed out", "confirmed": None}
    try:
        return json.loads(r.stdout.strip().splitlines()[-1])
    except Exception:  # pylint: disable=broad-except
        return {"error": "native helper failed", "stdout": r.stdout[-2000:], "stderr": r.stderr[-2000:], "rc": r.returncode}


def main():
    if os.environ.get("PYTHONHASHSEED") != "0":
        # reproducible verification conditions: the engine iterates over Python sets of names; with a random hash seed
        # the same tree gives differently ordered (and for z3 differently behaving) queries from run to run
        os.environ["PYTHONHASHSEED"] = "0"
        os.execv(sys.executable, [sys.executable] + sys.argv)
    ap = argparse.ArgumentParser()
    ap.add_argument("prop")
    ap.add_argument("--tier", default=os.environ.get("VERIF_TIER", "quick"), choices=["quick", "thorough"])
    ap.add_argument("--unit", default=None)
    ap.add_argument("--replay", default=None)
    ap.add_argument("--jobs", type=int, default=min(16, os.cpu_count() or 4))
    ap.add_argument("--update-baseline", action="store_true", help="developer only: record discharged obligation families")
    ap.add_argument("--no-evidence", action="store_true")
    args = ap.parse_args()
    prop = args.prop
    seed = int(os.environ.get("VERIF_SEED", "0"))
    t0 = time.time()
    if args.replay:
        with open(args.replay, encoding="utf8") as f:
            rp = json.load(f)
        res = native("replay_native.py", rp.get("native_request", {}))
        print(json.dumps(res, indent=1))
        sys.exit(1 if res.get("confirmed") else 0)
    if prop not in PROPERTY_MODULES:
        print(f"property {prop} is not claimed (see MANIFEST.not_applicable)", file=sys.stderr)
        sys.exit(3)
    scratch = tempfile.mkdtemp(prefix="ngo_verif_")
    os.environ["VERIF_SCRATCH"] = scratch
    try:
        rc = run(prop, args, seed, t0)
    finally:
        shutil.rmtree(scratch, ignore_errors=True)
    sys.exit(rc)


def run(prop, args, seed, t0):
    reflect()
    for mod in PROPERTY_MODULES[prop]:
        importlib.import_module(mod)
    from pyvc.unit import UNITS

    known_open, fixed = load_known(prop)
    baseline = load_baseline()
    uids = [u for u, un in UNITS.items() if un.prop == prop]
    if args.unit:
        uids = [u for u in uids if u == args.unit or u.startswith(args.unit)]
    if not uids:
        print("no units", file=sys.stderr)
        return 3
    timeout_ms = 10000 if args.tier == "quick" else 60000
    both = args.tier == "thorough"
    jobs = [(u, known_open, timeout_ms, both) for u in uids]
    ctxm = mp.get_context("fork")
    with ctxm.Pool(min(args.jobs, len(jobs)), maxtasksperchild=1) as pool:  # one fresh process per unit (z3 sorts are per process)
        results = pool.map(_worker, jobs, chunksize=1)
    # a crashed unit is run once more on its own (a late watchdog interrupt of z3 can hit the next API call when the
    # machine is busy); a crash that repeats is reported as a checker problem
    # ... and so is a unit that left the supported fragment: path pruning uses short solver budgets, and when all cores
    # are busy a path that is infeasible may survive and run into an unsupported construct
    again = [k for k, r in enumerate(results) if r.get("status") in ("crash", "out-of-reach")]
    if again:
        os.environ["VERIF_QFEAS_MS"] = "750"  # the second attempt prunes paths with three times the solver budget
        with ctxm.Pool(1, maxtasksperchild=1) as pool:
            for k in again:
                first = results[k]
                results[k] = pool.apply(_worker, (jobs[k],))
                results[k]["first_attempt"] = {"status": first.get("status"), "reason": (first.get("reason") or "")[-400:]}
    # ---- classify ---------------------------------------------------------------------------
    violations, undecided, problems = [], [], []
    bounded_runs, early_violation_lines = [], []
    n_obl = n_dis = n_cover = 0
    per_obl = []
    for r in results:
        if r["status"] == "crash":
            problems.append(f"unit {r['unit']} crashed: {r['reason'][-700:]}")
            continue
        if r["status"] == "out-of-reach":
            fb = UNITS[r["unit"]].fallback
            found = None
            if fb is not None:
                # bounded native stand-in (labelled bounded, never counted as proved): only a *found* failing input counts
                res = native("replay_native.py", {"mirror": fb["mirror"], "model": {}, "extra": dict(fb, bounded=True)})
                bounded_runs.append({"unit": r["unit"], "mirror": fb["mirror"], "result": res})
                if res.get("confirmed") is True:
                    found = res
            if found is not None:
                os.makedirs(os.path.join(HERE, "replay", prop), exist_ok=True)
                fname = os.path.join(HERE, "replay", prop, _safe(r["unit"] + ".bounded") + ".json")
                with open(fname, "w", encoding="utf8") as f:
                    json.dump({"property": prop, "unit": r["unit"], "out_of_reach": r["reason"], "bounded_standin": fb, "native_request": {"mirror": fb["mirror"], "model": {}, "extra": dict(fb, bounded=True)}, "native_result": found}, f, indent=1, default=str)
                early_violation_lines.append(f"VIOLATION property={prop} replay={fname}")
            else:
                undecided.append(f"unit {r['unit']} out of reach: {r['reason']}" + (" (bounded stand-in found no failing input)" if fb else ""))
            continue
        if not r["obligations"]:
            problems.append(f"unit {r['unit']} generated zero obligations")
        for o in r["obligations"]:
            per_obl.append(o)
            if o["kind"] in ("cover", "canary"):
                n_cover += 1
                if o["verdict"] == "VACUOUS":
                    problems.append(f"vacuity: {o['name']} is unreachable (contradictory precondition?)")
                elif o["verdict"] != "reachable":
                    undecided.append(f"cover {o['name']}: {o['verdict']}")
                continue
            n_obl += 1
            if o["verdict"] == "discharged":
                n_dis += 1
            elif o["verdict"] in ("failed", "failed-candidate"):
                (violations if ((o.get("source") == "property" and r["top_level"]) or family(o["name"]) in baseline) else undecided).append(o)
            elif o["verdict"] == "disagree":
                problems.append(f"solver disagreement on {o['name']}: {o.get('solver_disagreement')}")
            elif o["verdict"] == "unknown" and family(o["name"]) in baseline:
                # proved on the baseline tree, not re-established now (after a retry with 3x budget)
                violations.append(o)
            else:
                undecided.append(f"obligation {o['name']}: {o['verdict']}")
    # ---- bounded stand-ins for the unverified remainder of the property --------------------------
    if not args.unit:
        for si in STANDINS.get(prop, []):
            res = native("replay_native.py", {"mirror": si["mirror"], "model": {}, "extra": dict(si, bounded=True, tier=args.tier)}, timeout=600 if args.tier == "quick" else 3000)
            bounded_runs.append({"standin": si, "result": res})
            if res.get("confirmed") is True:
                os.makedirs(os.path.join(HERE, "replay", prop), exist_ok=True)
                fname = os.path.join(HERE, "replay", prop, _safe("standin." + si["mirror"] + "." + si.get("trait", "")) + ".json")
                with open(fname, "w", encoding="utf8") as f:
                    json.dump({"property": prop, "bounded_standin": si, "native_request": {"mirror": si["mirror"], "model": {}, "extra": dict(si, bounded=True)}, "native_result": res}, f, indent=1, default=str)
                early_violation_lines.append(f"VIOLATION property={prop} replay={fname}")
            elif res.get("confirmed") is None:
                problems.append(f"bounded stand-in {si} failed to run: {str(res)[:300]}")
    # ---- replay failed top-level obligations ------------------------------------------------
    os.makedirs(os.path.join(HERE, "replay", prop), exist_ok=True)
    violation_lines = []
    confirmed_families = set()
    for o in violations:
        if family(o["name"]) in confirmed_families:
            continue  # one replayed witness per obligation family is enough
        fname = os.path.join(HERE, "replay", prop, _safe(o["name"]) + ".json")
        rp = {"property": prop, "obligation": o["name"], "solver": o["backend"], "model": o.get("model"), "verdict": o["verdict"], "solver_output": {k: o.get(k) for k in ("verdict", "reason_unknown", "ms", "smt2_sha") if o.get(k) is not None}}
        confirmed = None
        if o.get("replay") and o.get("model") is not None:
            tries = o.get("candidates") or [o["model"]]
            rp["native_attempts"] = []
            for mdl in tries:
                req = {"mirror": o["replay"]["mirror"], "model": mdl, "extra": o["replay"]}
                res = native("replay_native.py", req)
                rp["native_attempts"].append({"model": mdl, "result": res})
                if "timed out" in str(res.get("error", "")):
                    break  # the changed code does not come back in time: further candidates would only wait again
                if res.get("confirmed") is True:
                    rp["native_request"] = req
                    rp["native_result"] = res
                    rp["model"] = mdl
                    confirmed = True
                    break
                # a bounded stand-in (corpus run, enumeration) does not evaluate this counter-model: when it finds
                # nothing the model is not refuted, there is just no failing input
                if res.get("confirmed") is False and confirmed is None and not res.get("bounded"):
                    confirmed = False
            if confirmed is not True and len(rp["native_attempts"]) > 3:
                rp["native_attempts"] = rp["native_attempts"][:3] + [f"... {len(tries) - 3} more"]
        rp["rerun"] = f"cd /verif && ./check.py {prop} --replay {fname}"
        with open(fname, "w", encoding="utf8") as f:
            json.dump(rp, f, indent=1, default=str)
        if confirmed is True:
            confirmed_families.add(family(o["name"]))
            violation_lines.append(f"VIOLATION property={prop} replay={fname}")
        elif confirmed is False:
            undecided.append(f"obligation {o['name']} failed in the solver but the counter-model was refuted natively (imprecise VC)")
        elif family(o["name"]) in baseline:
            rp["note"] = "this obligation is discharged on the baseline tree (baseline_obligations.json) and is not re-established on the current tree; no failing input could be replayed natively"
            with open(fname, "w", encoding="utf8") as f:
                json.dump(rp, f, indent=1, default=str)
            confirmed_families.add(family(o["name"]))
            violation_lines.append(f"VIOLATION property={prop} replay={fname} no-failing-input-found")
        elif o["verdict"] in ("failed-candidate", "unknown"):
            undecided.append(f"obligation {o['name']}: solver unknown; no candidate counter-model was confirmed natively")
        else:
            undecided.append(f"obligation {o['name']} failed, has no native replay and is not in the baseline list")
    violation_lines = violation_lines + [l for l in early_violation_lines if l not in violation_lines]
    # ---- known findings: replay witnesses -------------------------------------------------------
    kf_lines = []
    kf_reproduced = []
    for fid, e in sorted(known_open.items()):
        res = native("witness.py", e.get("witness", {}))
        if res.get("reproduced"):
            kf_lines.append(f"KNOWN-FINDING: property={prop} {fid}: {e['what']}")
            kf_reproduced.append(fid)
        elif "error" in res:
            problems.append(f"witness replay of {fid} failed: {res}")
    for e in fixed:
        res = native("witness.py", e.get("witness", {}))
        if res.get("reproduced"):
            fname = os.path.join(HERE, "replay", prop, _safe(e["id"]) + ".json")
            with open(fname, "w", encoding="utf8") as f:
                json.dump({"property": prop, "finding": e, "native_result": res}, f, indent=1)
            violation_lines.append(f"VIOLATION property={prop} replay={fname}")
    wall = time.time() - t0
    # ---- evidence ---------------------------------------------------------------------------
    if not args.no_evidence and not args.unit:
        write_evidence(prop, args.tier, seed, results, per_obl, n_obl, n_dis, n_cover, violation_lines, undecided, problems, kf_reproduced, wall, bounded_runs)
    if args.update_baseline and not violation_lines and not problems:
        fams = sorted(load_baseline() | {family(o["name"]) for o in per_obl if o.get("verdict") == "discharged"})
        with open(os.path.join(HERE, "baseline_obligations.json"), "w", encoding="utf8") as f:
            json.dump({"families": fams}, f, indent=0)
    for l in kf_lines:
        print(l)
    print(f"{prop}: {len(results)} units, {n_dis}/{n_obl} obligations discharged, {n_cover} covers, {wall:.1f}s")
    for r in results:
        st = r["status"]
        bad = [o for o in r["obligations"] if o["verdict"] not in ("discharged", "reachable")]
        second = f"  (second attempt; first: {r['first_attempt']['status']}: {r['first_attempt']['reason'][-160:]})" if r.get("first_attempt") else ""
        print(f"  {r['unit']:<40} {st:<12} {len(r['obligations'])-len(bad)}/{len(r['obligations'])} {r['wall_s']}s{second}")
        for o in bad:
            print(f"      {o['verdict']}: {o['name']}  model={json.dumps(o.get('model'), default=str)[:240] if o.get('model') else None}")
    if violation_lines:
        # a violation that was found stays a violation when some helper had a problem on the same (changed) tree
        for p in problems:
            print("CHECKER-PROBLEM:", p)
        for l in violation_lines:
            print(l)
        return 1
    if problems:
        for p in problems:
            print("CHECKER-PROBLEM:", p)
        return 3
    if undecided:
        for u in undecided:
            print("UNDECIDED:", u if isinstance(u, str) else u["name"] + " (helper-level fact failed)")
        return 2
    return 0


def _safe(s):
    return "".join(ch if ch.isalnum() or ch in "._-" else "_" for ch in s)[:150]


def write_evidence(prop, tier, seed, results, per_obl, n_obl, n_dis, n_cover, violation_lines, undecided, problems, kf, wall, bounded_runs=()):
    trusted = []
    functions = {}
    notes = []
    samples = []
    for r in results:
        for a in r.get("assumptions", []):
            if a not in trusted:
                trusted.append(a)
        functions.update(r.get("functions", {}))
        notes.extend(r.get("notes", []))
        samples.extend(r.get("samples", [])[:1])
    base_trust = [
        "pyvc (this repository's VC generator, /verif/pyvc): Python semantics of the supported fragment as described in DESIGN.md 3.3",
        "int is mathematical (exact for Python)",
        "strings: uninterpreted sort, distinct literals, no other string theory",
        "clingo.ast model generated from clingo's documented grammar (tools/reflect_clingo.py); AST equality ignores location",
        "z3 " + _z3v() + " (cvc5 1.0.3 CLI for unknowns / second opinion in thorough tier)",
    ]
    ev = {
        "property_id": prop,
        "tier": tier,
        "seed": seed,
        "level": "proof",
        "coverage": {
            "obligations": n_obl,
            "discharged": n_dis,
            "checker_cmd": f"python3-vt /verif/check.py {prop} --tier {tier}",
            "trusted_base": base_trust + trusted,
            "covers_reachable": n_cover,
            "functions_under_contract": functions,
            "units": [
                {
                    "unit": r["unit"],
                    "function": r["function"],
                    "status": r["status"],
                    "what": r.get("doc", ""),
                    "obligations": len([o for o in r["obligations"] if o["kind"] not in ("cover", "canary")]),
                    "exec_s": r.get("exec_s"),
                    "wall_s": r["wall_s"],
                    "reason": r.get("reason"),
                }
                for r in results
            ],
            "per_obligation": [
                {k: o.get(k) for k in ("name", "kind", "verdict", "backend", "ms", "source", "excluded_known_findings") if o.get(k) is not None}
                for o in per_obl
            ],
            "solver_ms_total": sum(o.get("ms", 0) for o in per_obl),
            "samples": [s for s in samples[:3]] or ["(no obligation generated)"],
            "engine_notes": notes[:40],
            "known_findings_reproduced": kf,
            "bounded_standins": [
                {"what": b.get("standin") or {"unit": b.get("unit"), "mirror": b.get("mirror")}, "label": "bounded (not a proof, not counted in discharged)", "bound": (b.get("result") or {}).get("bound"), "found_failing_input": (b.get("result") or {}).get("confirmed")}
                for b in bounded_runs
            ],
            "undecided": [u if isinstance(u, str) else u["name"] for u in undecided],
            "checker_problems": problems,
            "explanation": "every obligation is generated by symbolic execution of the current source of the listed functions and discharged by an SMT solver for all inputs (no bound)",
        },
        "assumptions": base_trust + trusted,
        "wall_s": round(wall, 2),
        "violations": len(violation_lines),
    }
    os.makedirs(os.path.join(HERE, "evidence"), exist_ok=True)
    with open(os.path.join(HERE, "evidence", f"{prop}.json"), "w", encoding="utf8") as f:
        json.dump(ev, f, indent=1, default=str)


def _z3v():
    import z3

    return z3.get_version_string()


if __name__ == "__main__":
    main()
