"""Replay of recorded witnesses (known findings / fixed defects) on the real code under /venv/bin/python.

Witness kinds are declarative (a program text, a trait list and what to compare); function-level witnesses
are ordinary functions registered in NAMED below.  No code is ever taken from the JSON file."""
from __future__ import annotations

from clingo import Control
from clingo.ast import parse_string

ALL = ["cleanup", "unused", "duplication", "symmetry", "minmax_chains", "sum_chains", "math", "inline", "projection"]

NAMED = {}


def named(name):
    def deco(f):
        NAMED[name] = f
        return f

    return deco


def models(text, extra_facts=""):
    ctl = Control(["0", "--warn=none", "--opt-mode=enum,1000000000"])  # every answer set with its cost, not only optima
    ctl.add("base", [], text + "\n" + extra_facts)
    ctl.ground([("base", [])])
    ms = []
    ctl.solve(on_model=lambda m: ms.append((tuple(sorted(map(str, m.symbols(shown=True)))), tuple(m.cost))))
    # a priority level at which EVERY answer set costs 0 says nothing (':~ X = #sum{ : b(1)}. [X@1]'); a rewrite may drop
    # such a statement, after which clingo reports one level less: compare without these levels
    if ms:
        width = max(len(c) for _a, c in ms)
        if all(len(c) == width for _a, c in ms):
            keep = [k for k in range(width) if any(c[k] != 0 for _a, c in ms)]
            ms = [(a, tuple(c[k] for k in keep)) for a, c in ms]
    return sorted(ms)


class DidNotReturn(Exception):
    """optimize exceeded the per-program time limit of a bounded stand-in"""


def optimise(text, traits, inputs="auto", outputs="auto", limit_s=None):
    """limit_s: give up (DidNotReturn) after that many seconds -- used by the bounded stand-ins so that a changed tree
    whose rewrite loop no longer terminates is reported with the program it hangs on instead of stalling the check"""
    if limit_s:
        import signal

        def _alarm(_sig, _frm):
            raise DidNotReturn(f"optimize did not return within {limit_s} s")

        old = signal.signal(signal.SIGALRM, _alarm)
        signal.alarm(int(limit_s))
        try:
            return optimise(text, traits, inputs, outputs)
        finally:
            signal.alarm(0)
            signal.signal(signal.SIGALRM, old)
    from ngo.api import optimize
    from ngo.utils.ast import Predicate
    from ngo.utils.globals import auto_detect_input, auto_detect_output

    prg = []
    parse_string(text, prg.append)
    inp = auto_detect_input(prg) if inputs == "auto" else [Predicate(n, a) for n, a in inputs]
    out = auto_detect_output(prg) if outputs == "auto" else [Predicate(n, a) for n, a in outputs]
    res = optimize(prg, inp, out, **{t: (t in traits) for t in ALL})
    return "\n".join(map(str, res))


@named("show_nothing")
def _show_nothing(req):
    from ngo.utils.ast import Predicate
    from ngo.utils.globals import auto_detect_output

    prg = []
    parse_string("#show. #show a/1. a(1).", prg.append)
    out = auto_detect_output(prg)
    return {"reproduced": Predicate("", 0) in out, "result": [str(p) for p in out]}


@named("pool_invisible")
def _pool_invisible(req):
    from ngo.utils.globals import auto_detect_input

    prg = []
    parse_string("a :- p(1;2).", prg.append)
    got = {(p.name, p.arity) for p in auto_detect_input(prg)}
    return {"reproduced": ("p", 1) not in got, "result": sorted(got)}


@named("variable_named_none")
def _variable_named_none(req):
    from clingo.ast import ProgramBuilder

    from ngo.api import optimize
    from ngo.utils.globals import auto_detect_input, auto_detect_output

    src = "q(1..2). v(1..3). {p(G,L) : v(L)} 1 :- q(G). a(S) :- S = #sum{ X,x : p(_,X) }. #show a/1."
    prg = []
    parse_string(src, prg.append)
    res = optimize(prg, auto_detect_input(prg), auto_detect_output(prg), **{t: t == "sum_chains" for t in ALL})
    ctl = Control(["0", "--warn=none"])
    try:
        with ProgramBuilder(ctl) as b:
            for s in res:
                b.add(s)
        ctl.ground([("base", [])])
    except RuntimeError as e:
        return {"reproduced": True, "error": repr(e)}
    return {"reproduced": False}


def run(req):
    kind = req.get("kind")
    if kind == "answer_sets":
        new = optimise(req["program"], req.get("traits", []), req.get("inputs", "auto"), req.get("outputs", "auto"))
        facts = req.get("facts", "")
        a, b = models(req["program"], facts), models(new, facts)
        return {"reproduced": a != b, "optimised": new, "answer_sets_source": a[:6], "answer_sets_result": b[:6]}
    if kind == "ungroundable":
        new = optimise(req["program"], req.get("traits", []), req.get("inputs", "auto"), req.get("outputs", "auto"))
        models(req["program"], req.get("facts", ""))  # the source must ground
        try:
            models(new, req.get("facts", ""))
        except RuntimeError as e:
            return {"reproduced": True, "optimised": new, "error": repr(e)}
        return {"reproduced": False, "optimised": new}
    if kind == "exception":
        try:
            new = optimise(req["program"], req.get("traits", []), req.get("inputs", "auto"), req.get("outputs", "auto"))
        except Exception as e:  # pylint: disable=broad-except
            return {"reproduced": type(e).__name__ == req.get("exc", type(e).__name__), "exception": repr(e)}
        return {"reproduced": False, "optimised": new}
    if kind == "output_contains":
        new = optimise(req["program"], req.get("traits", []), req.get("inputs", "auto"), req.get("outputs", "auto"))
        return {"reproduced": req["needle"] in new, "optimised": new}
    if kind == "named":
        fn = NAMED.get(req.get("name"))
        if fn is None:
            return {"reproduced": None, "error": f"unknown named witness {req.get('name')}"}
        return fn(req)
    return {"reproduced": None, "error": f"unknown witness kind {kind}"}
