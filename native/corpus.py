"""Small adversarial programs per trait, used ONLY as bounded native stand-ins (labelled bounded in evidence) when a
changed function has left the verifier's reach, and as the end-to-end referee of replays."""

CORPUS = {
    "cleanup": [
        ("{b(X)} :- c(X). a(X) :- d(X), not b(X). r(X) :- a(X), c(X). #show r/1.", ["d(1).", "d(1). c(1).", "d(1..2). c(2)."]),
        ("b(X,Y) :- c(Y,X). a(X,Y) :- b(Y,X), e(X). r(X,Y) :- a(X,Y), c(X,Y). s(X,Y) :- a(X,Y), c(Y,X). #show r/2. #show s/2.", ["c(1,2). e(1). e(2).", "c(1,2). c(2,1). e(2)."]),
        ("{p(1..2)}. :- p(X), not p(X). q(X) :- p(X), not not p(X). #show q/1.", [""]),
        ("dom(1..2). {q(1)}. p(X) :- dom(X), not q(X). a :- p(_), not q(_). b :- p(X), not q(X). #show a/0. #show b/0. #show q/1.", [""]),
        ("a(X) :- b(X,X). r(X) :- a(X), b(X,Y). t(X) :- a(X), b(X,X). #show r/1. #show t/1.", ["b(1,1). b(2,3).", "b(1,2)."]),
        ("{a(X) : b(X)} :- c. r :- a(X), b(X), c. s(X) :- a(X), not b(X). #show r/0. #show s/1.", ["c. b(1).", "b(1)."]),
        ("a(X) :- b(X). a(X) :- c(X). r(X) :- a(X), b(X). #show r/1.", ["b(1). c(2)."]),
        ("b(1,2). b(X,Y) :- dom(X), dom(Y), X<Y. a(X,Y) :- b(X,Y), dom(X), dom(Y). #show a/2.", ["", "dom(1).", "dom(1..2)."]),
        ("b(X,Y) :- e(X,Y). b(X,Y) :- f(X), g(Y). b(X,Y) :- h(X), e(X,Y). {c(X,Y)} :- b(X,Y), e(X,Y), h(X). #show c/2.", ["f(1). g(2).", "e(1,2). h(1).", "f(1). g(2). e(1,2)."]),
        ("{b(X) : d(X)} :- e. b(X) :- f(X). r(X) :- b(X), d(X). #show r/1.", ["e. d(1). f(2).", "f(2)."]),
        ("b(X) ; c(X) :- d(X). b(X) :- e(X), g(X). r(X) :- b(X), d(X). s(X) :- b(X), g(X). #show r/1. #show s/1.", ["d(1). e(2). g(2).", "e(2). g(2). d(2)."]),
        ("a(X) :- in(X). r(X) :- a(X), in(X). in2(X) :- e(X). s(X) :- in2(X), e(X). #show r/1. #show s/1.", ["in(1). e(2).", "in(3). e(3)."]),
        ("a :- b, #true. c :- d, #false. e :- not #false, b. f :- b : #false; d. g :- b : #true; d. #show a/0. #show c/0. #show e/0. #show f/0. #show g/0.", ["b.", "d.", "b. d."]),
        ("x(S) :- S = #sum{1,X : p(X), #true; 2,Y : q(Y), #false}, d(S). #show x/1.", ["p(1). q(1). d(0..3)."]),
    ],
    "minmax_chains": [
        ("{p(1..3)}. q(0..4). a(T) :- q(T), T < #max{X : p(X)}. #show a/1. #show p/1.", [""]),
        ("{p(1..3)}. q(0..4). a(T) :- q(T), T >= #min{X : p(X)}. #show a/1. #show p/1.", [""]),
        ("{p(1..3)}. q(0..4). a(T) :- q(T), not T < #min{X : p(X)}. #show a/1. #show p/1.", [""]),
        ("{p(1..3)}. a(V) :- V = #max{X : p(X)}. #show a/1. #show p/1.", [""]),
        ("{p(1..3)}. a :- 1 < #max{X : p(X)} < 3. b :- 1 <= #min{X : p(X)} <= 2. c :- 1 != #max{X : p(X)} != 3. #show a/0. #show b/0. #show c/0. #show p/1.", [""]),
        ("{p(1..3)}. a :- 2 = #max{X : p(X)}. b(X,Y) :- X = #min{Z : p(Z)} = Y. #show a/0. #show b/2. #show p/1.", [""]),
        ("g(1..2). {p(G,1..2)} :- g(G). a(G,V) :- g(G), V = #min{X : p(G,X)}. #show a/2. #show p/2.", [""]),
        ("{p(1..3)}. :~ V = #max{X : p(X)}. [V] :- not p(_). #show p/1.", [""]),
    ],
    "projection": [
        ("p(A,D,F) :- q(A,B,C), r(A,D,F), t(E), not s(B,E), u(X,D) : v(X,E). #show p/3.", ["q(1,1,1). r(1,2,3). t(1). t(2). v(1,1). v(2,2). u(1,2).", "q(1,1,1). r(1,2,3). t(1). s(1,1)."]),
        ("h(A) :- a(A,B), b(B,C), c(C,D), d(A). #show h/1.", ["a(1,2). b(2,3). c(3,4). d(1).", "a(1,2). b(2,3). d(1)."]),
        ("h(A) :- a(A,B), b(B,C), not c(C), d(A), C < 3. #show h/1.", ["a(1,2). b(2,3). d(1).", "a(1,2). b(2,2). d(1). c(2)."]),
        ("h(A) :- a(A,B), b(B,C), d(A), S = #sum{X : e(X,C)}, S > 1. #show h/1.", ["a(1,2). b(2,3). d(1). e(2,3).", "a(1,2). b(2,3). d(1). e(1,3)."]),
        ("h(A,X) :- a(A,B), b(B,C), d(A), X = C + 1. #show h/2.", ["a(1,2). b(2,3). d(1)."]),
    ],
    "symmetry": [
        ("{slot(1..3,1..2)}. :- slot(J1,M), slot(J2,M), J1 != J2. #show slot/2.", [""]),
        ("{slot(1..2,1)}. :- slot(J1,M), slot(J2,M), not J1 > J2. #show slot/2.", [""]),
        ("{slot(1..3,1)}. a :- slot(J1,M), slot(J2,M), slot(J3,M), J1 != J2, J1 != J3, J2 != J3. #show a/0. #show slot/2.", [""]),
        ("{p(1..3)}. a(X) :- p(X), p(Y), X < Y. #show a/1. #show p/1.", [""]),
        ("f :- p(X,A), p(Y,A), p(Z,B), X != Y, X != Z, Y != Z, A != B. g :- not f. #show f/0. #show g/0.", ["p(1,b). p(2,a). p(3,a).", "p(3,b). p(2,a). p(1,a).", "p(1,a). p(2,a). p(3,a)."]),
        ("{q(1..3,1..2)}. f(A) :- q(X,A), q(Y,A), X != Y, r(X). #show f/1. #show q/2.", ["r(1).", "r(3)."]),
    ],
    "sum_chains": [
        ("q(1..2). v(1..3). {p(G,L) : v(L)} 1 :- q(G). a(S) :- S = #sum{X,G : p(G,X)}. #show a/1. #show p/2.", [""]),
        ("v(1..3). {p(L) : v(L)} 1. #minimize{L : p(L)}. #show p/1.", [""]),
        ("v(1..3). 1 {p(L) : v(L)} 1. a(S) :- S = #sum{L : p(L)}. #show a/1.", [""]),
        ("day(1). pshift(1,(1;3;5)). {shift(D,L) : pshift(D,L)} 1 :- day(D). total(S) :- S = #sum{L,D : shift(D,L), L > 2}. #show total/1. #show shift/2.", [""]),
        ("day(1). pshift(1,(1;3;5)). {shift(D,L) : pshift(D,L)} 1 :- day(D). #minimize{L,D : shift(D,L), L > 2}. #show shift/2.", [""]),
        ("day(1..2). pshift(1..2,(1;3)). {shift(D,L) : pshift(D,L)} < 2 :- day(D). total(S) :- S = #sum{L,D : shift(D,L)}. #show total/1. #show shift/2.", [""]),
        ("day(1). pshift(1,(1;3)). {shift(D,L) : pshift(D,L)} 2 :- day(D). total(S) :- S = #sum{L,D : shift(D,L)}. #show total/1. #show shift/2.", [""]),
    ],
    "none": [
        ("p(1..6). q(X) :- p(X), 2 < X < 5. r(X) :- p(X), X = 1..3. #show q/1. #show r/1.", [""]),
        ("{p(1..3)}. a :- #inf <= #sum{X : p(X)} <= 3. b :- #count{X : p(X)} >= 2. c :- 2 {p(X)}. #show a/0. #show b/0. #show c/0. #show p/1.", [""]),
        ("p(1..3). q(X+1) :- p(X). r(Y) :- p(X), Y = X * 2. s(X) :- p(X), not X = 2. #show q/1. #show r/1. #show s/1.", [""]),
        ("{p(1..3)}. a :- #sup >= #max{X : p(X)}. b(Y) :- Y = #min{X : p(X)}. #show a/0. #show b/1. #show p/1.", [""]),
    ],
    "unused": [
        ("{a(1..2,1..2)}. b(X) :- a(X,_). c(X,Y) :- a(X,Y). d(X) :- c(X,_). #show d/1.", [""]),
        ("{a(1..2)}. b(X,Y) :- a(X), a(Y). c(X) :- b(X,_). #show c/1.", [""]),
    ],
    "inline": [
        ("{p(1..3)}. s(S) :- S = #sum{X : p(X)}. :- s(S), S > 4. #show p/1.", [""]),
        ("{p(1..3)}. m(S) :- S = #max{X : p(X)}. #minimize{S : m(S)}. #show p/1.", [""]),
    ],
    "math": [
        ("{p(1..4)}. a :- X = #sum{V : p(V)}, X * 2 > 6. b :- X = #sum{V : p(V)}, Y = #count{V : p(V)}, X + Y = 5. #show a/0. #show b/0. #show p/1.", [""]),
        ("d(1..5). a(X) :- d(X), d(Y), X - Y = 2. b(X) :- d(X), X * 2 = 6. #show a/1. #show b/1.", [""]),
    ],
    "duplication": [
        ("{a; b; c; d}. foo :- a, b, c. bar :- a, b, d. #show foo/0. #show bar/0.", [""]),
        ("{e(1..2,1..2)}. f(X) :- e(X,Y), e(Y,X), X < Y. g(X) :- e(X,Y), e(Y,X), X > Y. #show f/1. #show g/1.", [""]),
    ],
}
