"""Schema-generated programs per trait: the cross product of a few slots per schema (operators, signs, aggregate
functions, tuple shapes, extra literals, weights of either sign ...).  Used ONLY by the bounded stand-in mirror
`generated` (differential run of optimize against clingo; labelled bounded, never counted as proved).  Deterministic:
the sample is drawn with random.Random(seed)."""
from __future__ import annotations

import itertools
import random

OPS = ["<", "<=", ">", ">=", "=", "!="]
SIGNS = ["", "not ", "not not "]


def _product(schema, **slots):
    keys = list(slots)
    for combo in itertools.product(*[slots[k] for k in keys]):
        yield schema.format(**dict(zip(keys, combo)))


def gen_inline():
    show = " #show b/1. #show d/1. #show r/0. #show r/1. #show r/2."
    # helper rule x user
    helpers = [
        "a(X) :- X = {fi}{{V : b(V)}}.",
        "a(X) :- X = {fi}{{V,V : b(V); V+1,x : b(V), d(V)}}.",
        "a(X) :- X = {fi}{{V : b(V)}}, d(1).",
        "a(X) :- X = {fi}{{V : b(V), d(W)}}.",
    ]
    users = [
        "r(S) :- S = {fo}{{X : a(X)}}.",
        "r(S) :- S = {fo}{{X,u : a(X); W,v : d(W)}}.",
        "r(S) :- S = {fo}{{X : a(X); W : d(W)}}.",
        "r(S) :- S = {fo}{{X,W : a(X), d(W)}}.",
        "r(S) :- S = {fo}{{X : a(X), not d(2)}}.",
        "r :- 2 {op} {fo}{{X : a(X); W,v : d(W)}}.",
        "r :- not 2 {op} {fo}{{X : a(X)}}.",
        ":~ a(X). [X@1]",
        ":~ a(X). [X@1,u] :~ d(W). [W@1,u]",
        ":~ a(X), d(W). [X@1,W]",
        "r(Y) :- a(X), Y = #sum{{W : d(W)}}, X + Y {op} 3.",
        "r :- a(X), X {op} #sum{{W : d(W)}}.",
    ]
    for h in helpers:
        for u in users:
            for fi, fo in (("#sum", "#sum"), ("#sum+", "#sum"), ("#sum", "#sum+"), ("#sum+", "#sum+"), ("#count", "#sum"), ("#min", "#min"), ("#max", "#max"), ("#max", "#min"), ("#sum", "#max")):
                for op in ("<", ">=", "!="):
                    if "{op}" not in u and op != "<":
                        continue
                    yield "{b(-1..2)}. {d(1..2)}. " + h.format(fi=fi) + " " + u.format(fo=fo, op=op) + show, [""]
    # helper with extra head arguments: global / local / projected use
    for fi in ("#sum", "#max", "#sum+"):
        for use in ("r(S) :- S = {fo}{{X : a(X,W)}}.", "r(S) :- S = {fo}{{X,W : a(X,W)}}.", "r(S,W) :- S = {fo}{{X : a(X,W)}}, d(W).", ":~ a(X,W). [X@1]", ":~ a(X,W). [X@1,W]", "r(S) :- S = {fo}{{X : a(X,1)}}.", "r(S) :- S = {fo}{{X : a(X,_)}}."):
            fo = "#sum" if fi != "#max" else "#max"
            yield "e(1,1). e(2,1). e(3,2). e(-1,2). {d(1..2)}. a(X,W) :- X = " + fi + "{V : e(V,W)}, d(W). " + use.format(fo=fo) + show, [""]


def gen_minmax():
    show = " #show a/0. #show a/1. #show p/1. #show p/2."
    for fn in ("#min", "#max"):
        for sign in SIGNS:
            for op in OPS:
                yield f"{{p(1..3)}}. q(0..4). a(T) :- q(T), {sign}T {op} {fn}{{X : p(X)}}." + show, [""]
                yield f"{{p(1..3)}}. q(0..4). a(T) :- q(T), {sign}{fn}{{X : p(X)}} {op} T." + show, [""]
                yield f"{{p(1..3)}}. a :- {sign}2 {op} {fn}{{X : p(X)}}." + show, [""]
            for op1, op2 in (("<", "<"), ("<=", "<"), (">", ">="), ("!=", "<"), ("=", "="), ("<", "!=")):
                yield f"{{p(1..3)}}. a :- {sign}1 {op1} {fn}{{X : p(X)}} {op2} 3." + show, [""]
                yield f"{{p(1..3)}}. q(0..4). a(T) :- q(T), {sign}1 {op1} {fn}{{X : p(X)}} {op2} T." + show, [""]
        for body in ("V = {fn}{{X : p(X)}}", "V = {fn}{{X,Y : p(Y,X)}}, g(G)", "V = {fn}{{X : p(G,X)}}, g(G)", "V = {fn}{{X : p(X); 2 : c}}", "V = {fn}{{X : p(X), X > 1}}", "V = {fn}{{X+1 : p(X)}}", "V = {fn}{{X : p(X); X : r(X)}}"):
            b = body.format(fn=fn)
            yield f"g(1..2). {{c}}. {{r(2..4)}}. {{p(1..3)}}. {{p(G,1..2)}} :- g(G). a(V) :- {b}." + show, [""]
            yield f"g(1..2). {{c}}. {{r(2..4)}}. {{p(1..3)}}. {{p(G,1..2)}} :- g(G). :~ {b}. [V@1]" + show, [""]
            yield f"g(1..2). {{c}}. {{r(2..4)}}. {{p(1..3)}}. {{p(G,1..2)}} :- g(G). a(S) :- S = #sum{{V : {b}}}." + show, [""]
        yield f"{{p(1..3)}}. a(S) :- S = #sum{{V,x : V = {fn}{{X : p(X)}}}}." + show, [""]
        yield f"{{p(-2..1)}}. a(V) :- V = {fn}{{X : p(X)}}. #minimize{{V : a(V)}}." + show, [""]


def gen_sum_chains():
    show = " #show total/1. #show p/2. #show p/1. #show q/1."
    heads = [
        "{{p(G,L) : v(L)}} {ub} :- g(G).",
        "{lb} {{p(G,L) : v(L)}} {ub} :- g(G).",
        "{{p(G,L) : v(L)}} :- g(G).",
        "#count{{L : p(G,L) : v(L)}} {cub} :- g(G).",
        "#sum{{{w},L : p(G,L) : v(L)}} {cub} :- g(G).",
        "{{p(G,L) : v(L); q(G) : g(G)}} {ub} :- g(G).",
        "{{p(G,L)}} {ub} :- g(G), v(L).",
    ]
    users = [
        "total(S) :- S = #sum{{L,G : p(G,L)}}.",
        "total(S) :- S = #sum{{L : p(G,L)}}.",
        "total(S) :- S = #sum{{L,G : p(G,L), L > 1}}.",
        "total(S) :- S = #sum+{{L,G : p(G,L)}}.",
        "total(S) :- S = #sum{{L,G : p(G,L); 1,x : q(1)}}.",
        "#minimize{{L,G : p(G,L)}}.",
        "#minimize{{L : p(G,L)}}.",
        "#maximize{{L@2,G : p(G,L)}}.",
        "total(S) :- S = #max{{L : p(G,L)}}.",
        ":~ p(G,L). [L@1,G]",
    ]
    for h in heads:
        for ub, lb, cub, w in (("1", "1", "<= 1", "1"), ("2", "0", "<= 2", "1"), ("1", "0", "< 2", "2"), ("1", "1", "= 1", "-1"), ("1", "1", "<= 1", "0")):
            for u in users:
                yield "g(1..2). v(-1..2). {q(1)}. " + h.format(ub=ub, lb=lb, cub=cub, w=w) + " " + u.format() + show, [""]


def gen_symmetry():
    show = " #show slot/2. #show a/0. #show a/1."
    for n in (2, 3):
        vars_ = ["J1", "J2", "J3"][:n]
        lits = ", ".join(f"slot({v},M)" for v in vars_)
        pairs = list(itertools.combinations(vars_, 2))
        for ops in itertools.product(["!=", "<", ">", "<=", "not {a} > {b}", "not {a} = {b}"], repeat=len(pairs)):
            cmp_ = ", ".join((o.format(a=a, b=b) if "{" in o else f"{a} {o} {b}") for (a, b), o in zip(pairs, ops))
            for head in (":-", "a :-", "a(M) :-"):
                yield f"{{slot(1..3,1..2)}}. {head} {lits}, {cmp_}." + show, [""]
        # the symmetric atoms differ in a second argument / carry an extra literal
        yield f"{{slot(1..3,1..2)}}. r(1). a :- {lits}, {', '.join(f'{a} != {b}' for a, b in pairs)}, r(J1)." + show, [""]
    for agg in ("#count", "#sum"):
        yield f"{{slot(1..3,1..2)}}. a(M) :- slot(J1,M), slot(J2,M), J1 != J2, 2 <= {agg}{{J : slot(J,M)}}." + show, [""]
    # symmetric joins inside aggregate conditions: compared variables in / not in the tuple
    for tup in ("J1", "J1,J2", "M", "1,M", "J1,M"):
        for cmp_ in ("J1 != J2", "J1 < J2", "J1 != J2, M1 != M2"):
            m1, m2 = ("M1", "M2") if "M1" in cmp_ else ("M", "M")
            tup_ = tup.replace("M", m1) if "M1" in cmp_ else tup
            for wrap in (":- #count{{{T} : slot(J1,{A}), slot(J2,{B}), {C}}} >= 2.", "a(N) :- N = #count{{{T} : slot(J1,{A}), slot(J2,{B}), {C}}}.", ":~ slot(J1,{A}), slot(J2,{B}), {C}. [1@1,{T}]"):
                yield "{slot(1..3,1..2)}. " + wrap.format(T=tup_, A=m1, B=m2, C=cmp_) + show, [""]


def gen_unused():
    show = " #show out/1. #show out/2. #show a/2."
    # (a copy rule with a repeated head variable, "b(X,X) :- a(X,_).", is the open finding
    # C09-copy-rule-repeated-head-variable; its witness is replayed on every run, the shape is not generated here)
    mids = ["b(X,Y) :- a(X,Y).", "b(X) :- a(X,_).", "b(Y,X) :- a(X,Y).", "b(X,Y,Z) :- a(X,Y), a(Y,Z).", "b(X,Y) :- a(X,Y), X < Y.", "b(X,1) :- a(X,_).", "b(f(X),Y) :- a(X,Y)."]
    outs = ["out(X) :- b(X,_).", "out(X,Y) :- b(X,Y).", "out(Y) :- b(_,Y).", "out(X) :- b(X,X).", "out(X) :- b(X,Y), Y > 1.", "out(X) :- b(X,_,_).", "out(X) :- b(X).", "out(X,Z) :- b(X,_,Z).", "out(X) :- b(X,_), not b(_,X).", "out(S) :- S = #sum{Y,X : b(X,Y)}.", "out(X) :- b(X,Y) : a(Y,Y); a(X,_)."]
    extra = ["", ":- b(1,1).", "#minimize{Y,X : b(X,Y)}.", "c(X) :- b(X,_). out(X) :- c(X)."]
    for m_ in mids:
        for o in outs:
            for e in extra:
                yield "{a(1..2,1..3)}. " + m_ + " " + o + " " + e + show, [""]


def gen_cleanup():
    show = " #show r/1. #show r/2. #show s/1."
    defs = ["b(X) :- c(X).", "{b(X)} :- c(X).", "b(X) :- c(X), d(X).", "b(X) :- c(X). b(X) :- d(X).", "b(X) :- not c(X), d(X).", "b(X,Y) :- c(X), d(Y).", "b(X) :- c(X), X > 1.", "{b(X) : c(X)} :- d(1).", "b(X) ; e2(X) :- c(X)."]
    uses = ["r(X) :- b(X), c(X).", "r(X) :- b(X), not c(X), d(X).", "r(X) :- b(X), d(X).", "r(X) :- b(X), c(X), d(X).", "r(X) :- not b(X), c(X).", "r(X) :- d(X), not b(X), not c(X).", "r(X,Y) :- b(X,Y), c(X).", "r(X) :- b(X,_), d(X).", "r(X) :- c(X), b(X) : d(X).", "r(S) :- S = #sum{X : b(X), c(X)}, d(S).", "r(X) :- b(X), c(Y), X = Y."]
    for d_ in defs:
        for u in uses:
            yield d_ + " " + u + show, ["c(1). d(1).", "c(1..2). d(2..3).", "d(1..2)."]


def gen_math():
    show = " #show a/0. #show a/1. #show b/1."
    for sign in ("", "not "):
        for o1 in OPS:
            for o2 in ("<", ">=", "!="):
                yield f"{{b(-1..3)}}. a :- X = #sum{{V : b(V)}}, {sign}X {o1} 2, X {o2} 4." + show, [""]
                yield f"{{b(-1..3)}}. a :- X = #sum{{V : b(V)}}, {sign}2 {o1} X, 0 {o2} X." + show, [""]
            yield f"{{b(-1..3)}}. k(1..2). a(Y) :- X = #sum{{V : b(V)}}, k(Y), {sign}X*2 {o1} Y+3." + show, [""]
            yield f"{{b(-1..3)}}. a :- X = #sum{{V : b(V)}}, Y = #count{{V : b(V)}}, {sign}X + Y {o1} 3." + show, [""]
            yield f"{{b(-1..3)}}. a :- X = #sum+{{V : b(V)}}, Y = #sum{{V : b(V)}}, {sign}X - Y {o1} 1." + show, [""]
            yield f"{{b(-1..3)}}. a :- {sign}1 {o1} #sum{{V : b(V)}} {o1} 3, 1 < 2." + show, [""]
            yield f"k(-2..4). a(X) :- k(X), k(Y), {sign}X - Y {o1} 2, Y = 1." + show, [""]
            yield f"k(-2..4). a(X) :- k(X), k(Y), {sign}X * 2 {o1} Y * 3." + show, [""]
            yield f"k(-2..4). a(X) :- k(X), k(Y), {sign}X {o1} Y / 2, Y > 0." + show, [""]
            yield f"k(-2..4). a(X) :- k(X), {sign}|X| {o1} 2." + show, [""]
            yield f"k(-2..4). a(X) :- k(X), k(Y), k(Z), X = Y + Z, {sign}Z {o1} 1, Y = 2." + show, [""]


def gen_projection():
    show = " #show h/1. #show h/2."
    bodies = ["a(A,B), b(B,C), c(C)", "a(A,B), b(B,C), not c(C)", "a(A,B), b(B,C), not not c(C)", "a(A,B), b(B,C), C < 3", "a(A,B), b(B,C), c(C+1)", "a(A,B), b(B,C), S = #sum{X : e(X,C)}, S > 1", "a(A,B), b(B,C), c(D) : e(D,C)", "a(A,B), b(B,C), A < C", "a(A,B), b(B,C), C = B + 1", "a(A,B), b(B,_), c(B)"]
    heads = ["h(A)", "h(A,B)", "{h(A)}", "h(A) ; h(A,A)", "#sum{1,A : h(A)} 1", ""]
    for b in bodies:
        for h in heads:
            stm = f"{h} :- {b}." if h else f":- {b}, a(A,A)."
            yield stm + show, ["a(1,2). b(2,3). c(3). e(2,3).", "a(1,2). a(2,2). b(2,1). b(2,2). c(2). e(1,2). e(2,2).", "a(1,1). b(1,4). c(5). e(3,4)."]


def gen_none():
    """constructs the normalisation (all traits off) rewrites: comparison chains, guards on either side, old-style
    aggregates, #count, arithmetic in atoms, intervals, pools, negation of comparisons / aggregates"""
    show = " #show a/0. #show a/1. #show a/2. #show p/1."
    for sign in SIGNS:
        for o1 in OPS:
            for o2 in ("<", ">=", "=", "!="):
                if sign != "not ":  # a negated comparison chain is the open finding C05-negated-chain-split (witness replayed)
                    yield f"p(1..5). a(X) :- p(X), {sign}2 {o1} X {o2} 4." + show, [""]
                yield f"{{p(1..3)}}. a :- {sign}1 {o1} #sum{{X : p(X)}} {o2} 4." + show, [""]
            yield f"{{p(1..3)}}. a :- {sign}#count{{X : p(X)}} {o1} 2." + show, [""]
            yield f"{{p(1..3)}}. a :- {sign}2 {o1} #count{{X : p(X); X+1 : p(X)}}." + show, [""]
            yield f"{{p(1..3)}}. a :- {sign}2 {o1} {{p(X) : X > 1; not p(1)}}." + show, [""]
            yield f"{{p(1..3)}}. a :- {sign}{{p(X)}} {o1} 2." + show, [""]
            yield f"{{p(1..3)}}. a(N) :- N = #max{{X : p(X)}}, {sign}N {o1} 2." + show, [""]
            yield f"p(1..4). a(X,Y) :- p(X), p(Y), {sign}X + 1 {o1} Y * 2." + show, [""]
            yield f"p(1..4). a(X+1) :- p(X), {sign}X {o1} 2." + show, [""]
            yield f"p(1..4). a(Y) :- p(X), Y = X * 2, {sign}Y {o1} 4." + show, [""]
            yield f"p(1..4). a(X) :- p(X), {sign}X {o1} (1;3)." + show, [""]
            yield f"p(1..4). a(X) :- p(X), {sign}X {o1} 2..3." + show, [""]
            yield f"p(1..4). a(X) :- p(X), {sign}p(X+1), X {o1} 3." + show, [""]
            yield f"p(1..4). {{a(X) : p(X), {sign}X {o1} 2}}. :~ a(X), {sign}X {o1} 3. [X@1]" + show, [""]
            yield f"p(1..4). a(X) :- p(X), {sign}|X - 3| {o1} 1." + show, [""]
            yield f"p(1..4). a(X) :- p(X), p(Y) : p(Z), {sign}Y {o1} Z; X > 1." + show, [""]
            yield f"{{p(1..3)}}. a :- {sign}#sum{{X,Y : p(X), p(Y), X {o1} Y}} > 3." + show, [""]
            yield f"{{p(1..3)}}. a :- {sign}#min{{X : p(X)}} {o1} #sup." + show, [""]
            yield f"{{p(1..3)}}. a :- {sign}#inf {o1} #max{{X : p(X)}}." + show, [""]


def gen_cleanup2():
    """second wave for cleanup: facts / choices / constraints next to the rule that could be simplified, anonymous
    variables, constants, double negation, heads with several atoms, aggregates and conditional literals as users"""
    show = " #show r/0. #show r/1. #show r/2."
    defs = ["b(X) :- c(X).", "b(X) :- c(X), not d(X).", "b(X,Y) :- c(X), c(Y), X < Y.", "b(X) :- c(X). b(2).", "{b(X)} :- c(X). :- b(1), d(1).", "b(X) :- c(X), #sum{Y : d(Y)} > 1.", "b(X) :- c(X) : d(X); d(X).", "b(1..2).", "b(X) :- e(X,_).", "b(X) :- e(_,X), c(X)."]
    uses = ["r(X) :- b(X), c(X).", "r(X) :- b(X), not not c(X).", "r :- b(_), c(_).", "r :- b(X), c(Y), X != Y.", "r(X) :- b(X), e(X,_).", "r(X) :- c(X), not b(X).", "r(X,Y) :- b(X,Y), c(X), c(Y).", "r(N) :- N = #count{X : b(X), c(X)}.", "r(X) :- c(X), b(Y) : c(Y), Y > X.", "r(X) :- b(X), c(X), #true.", "r(X) :- b(X), X = 1.", "r(X) :- b(X), c(X+1)."]
    for d_ in defs:
        for u in uses:
            yield d_ + " " + u + show, ["c(1). d(1). e(1,2).", "c(1..2). d(2..3). e(2,1). e(3,3).", "d(1..2). e(1,1)."]


def gen_cleanup3():
    """an INPUT predicate that the program also derives itself (the instance adds more atoms of it): what a rule
    of the program implies about it does not hold for the atoms that come from the instance"""
    show = " #show r/1. #show r/2."
    defs = ["b(X) :- c(X).", "b(X) :- c(X), d(X).", "b(X,Y) :- c(X), d(Y).", "{b(X)} :- c(X)."]
    uses = ["r(X) :- b(X), c(X).", "r(X) :- b(X), not c(X).", "r(X) :- b(X), d(X).", "r(X,Y) :- b(X,Y), c(X).", "r(X) :- d(X), not b(X), not c(X).", "r(X) :- b(X), c(X), d(X)."]
    for d_ in defs:
        for u in uses:
            yield d_ + " " + u + show, ["c(1). d(1). b(2). b(2,2).", "c(1..2). d(2..3). b(3). b(3,1).", "d(1..2). b(1). b(1,2)."], [("b", 1), ("b", 2), ("c", 1), ("d", 1)]
            yield d_ + " " + u + show, ["c(1). d(1).", "c(1..2). d(2..3).", "d(1..2)."], [("c", 1), ("d", 1)]


def gen_cleanup4():
    """several occurrences of one predicate in a head (disjunction, choice, head aggregate)"""
    show = " #show out/1. #show b/1. #show c/1."
    heads = ["a(X); a(Y) :- b(X), c(Y).", "{ a(X); a(Y) } :- b(X), c(Y).", "{ a(X) : b(X); a(Y) : c(Y) }.", "a(X) : b(X); a(Y) : c(Y) :- b(_).", "#sum{ 1,X : a(X) : b(X); 1,Y,y : a(Y) : c(Y) } 2.", "a(X); d(Y) :- b(X), c(Y).", "a(X); a(X) :- b(X), c(X)."]
    uses = ["out(X) :- a(X), b(X).", "out(X) :- a(X), c(X).", "out(X) :- a(X), b(X), c(X).", "out(X) :- a(X), not b(X).", "out(X) :- a(X)."]
    for h in heads:
        for u in uses:
            yield "{ b(1..2); c(1..2) }. " + h + " " + u + show, [""]


def gen_projection2():
    show = " #show h/0. #show h/1. #show h/2. #show a/2."
    bodies = ["a(A,B), b(B,C), c(C,D), d(D)", "a(A,B), b(B,C), not c(C,A)", "a(A,B), b(B,C), C != A", "a(A,B), b(B,_), d(A)", "a(A,B), b(C,D), B < C", "a(A,B), b(B,C), N = #count{X : c(X,C)}, N > 0", "a(A,B), b(B,C), d(X) : c(X,C)", "a(A,B), b(B,C), not d(C), not d(B)", "a(A,B), b(B,C), c(C,D), D = A + 1", "a(A,B), 1 {b(B,C) : d(C)}"]
    heads = ["h(A)", "h", "h(A) :- d(A);", ":~", "{h(A); h(A,A)}", "h(A+1)", "h(A) : d(A)"]
    for b in bodies:
        for h in heads:
            if h == ":~":
                stm = f":~ {b}. [1@1,A]"
            elif h.endswith(";"):
                stm = f"{h} {b}."
            else:
                stm = f"{h} :- {b}."
            yield stm + " {a(1..2,1..2)}." + show, ["b(2,3). c(3,1). d(1). d(3).", "b(1,1). b(2,2). c(1,2). c(2,4). d(2). d(4).", "b(2,1). c(1,1). d(1). d(2)."]


def gen_unused3():
    """copy rules ("a :- b.") in many forms: negated, zero arity, constants, chained, used under negation"""
    show = " #show out/0. #show out/1. #show b/0. #show b/1. #show b/2."
    copies = ["a(X,Y) :- b(X,Y).", "a(X,Y) :- b(Y,X).", "a :- b.", "a :- not b.", "a :- not not b.", "a(X) :- b(X).", "a(X) :- b(X), c(X).", "a(X) :- b(X). a(3) :- c(1).", "a(X,Y) :- b(Y,X).", "a(1) :- b(2).", "a(X) :- b(X,_).", "a(X) :- b(f(X))."]
    uses = ["out(X0) :- a(Y0,X0), Y0 > 1.", "out(X0) :- a(Y0,X0), a(X0,Y0).", "out(Y) :- a(Y,X), a(X,_).", "out :- a.", "out :- not a.", "out(X) :- a(X).", "out(X) :- c(X), not a(X).", "out(X) :- a(X,_).", "out(X) :- a(X,Y), c(Y).", "out(N) :- N = #count{X : a(X)}.", "out :- a, c(1)."]
    for c_ in copies:
        for u in uses:
            yield "{b}. {b(1..2)}. {b(1..2,1..2)}. {b(f(1))}. c(1..2). " + c_ + " " + u + show, [""]


def gen_math2():
    show = " #show a/0. #show a/1. #show b/1."
    for o1 in OPS:
        # a variable bound by an equality that the algebra may eliminate and that an aggregate element uses
        yield f"{{b(-1..3)}}. k(1..2). a(Z) :- k(Z), Y = Z + 1, X = #sum{{V : b(V), V < Y}}, X {o1} 2." + show, [""]
        yield f"{{b(-1..3)}}. k(1..2). a(Z) :- k(Z), Y = Z * 2, 1 {o1} #sum{{V : b(V), V != Y}}." + show, [""]
        yield f"{{b(-1..3)}}. k(1..2). a(Z) :- k(Z), Y - Z = 1, X = #count{{V : b(V), V >= Y}}, X {o1} 1." + show, [""]
        # #sum+ with constant weights of either sign, scaled / merged
        yield f"{{b(-1..3)}}. a :- X = #sum+{{-1,V : b(V); 2,V,x : b(V)}}, X * 2 {o1} 4." + show, [""]
        yield f"{{b(-1..3)}}. a :- X = #sum+{{-1,V : b(V); 1,V,x : b(V)}}, Y = #sum{{V : b(V)}}, X + Y {o1} 2." + show, [""]
        yield f"{{b(-1..3)}}. a :- X = #sum+{{0,V : b(V); 3,x : b(1)}}, 0 - X {o1} -2." + show, [""]
        yield f"{{b(-1..3)}}. a :- X = #sum{{V : b(V)}}, Y = #sum{{V,V : b(V)}}, X + Y {o1} 4, X - Y = 0." + show, [""]
        yield f"{{b(-1..3)}}. a :- X = #sum{{V : b(V)}}, X + 1 {o1} 3, X - 1 < 4." + show, [""]
        yield f"{{b(-1..3)}}. k(1..3). a(K) :- k(K), X = #sum{{V : b(V)}}, X {o1} K, K {o1} 2." + show, [""]


def gen_unused2():
    show = " #show out/1. #show out/2. #show a/2."
    mids = ["b(X,Y,Z) :- a(X,Y), a(Y,Z).", "b(X,Y) :- a(X,Y), a(Y,_).", "b(X,c) :- a(X,_).", "b(X,Y) :- a(X,Y). b(X,X) :- a(X,X).", "{b(X,Y)} :- a(X,Y).", "b(X,Y) ; d(X) :- a(X,Y).", "b(X,N) :- a(X,_), N = #count{Y : a(X,Y)}.", "b(X,Y) :- a(X,Y), not a(Y,X)."]
    outs = ["out(X) :- b(X,_).", "out(X) :- b(X,_,_).", "out(X) :- b(X,Y), b(Y,_).", "out(N) :- N = #count{X : b(X,_)}.", "out(N) :- N = #sum{Y,X : b(X,Y)}.", "out(X) :- a(X,_), not b(X,_).", "out(X) :- b(X,_) : a(X,X); a(X,_).", "out(X,Y) :- b(X,Y), X < Y.", "out(X) :- b(X,c).", ":~ b(X,Y). [1@1,X] out(X) :- a(X,X)."]
    for m_ in mids:
        for o in outs:
            yield "{a(1..2,1..2)}. " + m_ + " " + o + show, [""]


def gen_minmax2():
    show = " #show a/0. #show a/1. #show p/1. #show p/2."
    for fn in ("#min", "#max"):
        for op in OPS:
            yield f"{{p(1..3)}}. {{r(2..4)}}. a :- V = {fn}{{X : p(X)}}, W = {fn}{{X : r(X)}}, V {op} W." + show, [""]
            yield f"{{p(1..3)}}. a(T) :- T = 1..4, T {op} {fn}{{X : p(X); 2 : #true}}." + show, [""]
            yield f"{{p(1..3)}}. a :- {fn}{{X : p(X)}} {op} 2, not p(3)." + show, [""]
            yield f"{{p(1..3)}}. :~ V = {fn}{{X : p(X)}}, V {op} 2. [V@1]" + show, [""]
            yield f"g(1..2). {{p(G,1..3)}} :- g(G). a(G) :- g(G), 2 {op} {fn}{{X : p(G,X)}}." + show, [""]
            yield f"g(1..2). {{p(G,1..3)}} :- g(G). a(G) :- g(G), {fn}{{X : p(G,X)}} {op} {fn}{{X : p(H,X)}}, g(H), H != G." + show, [""]
            yield f"{{p(1..3)}}. a(V) :- V = {fn}{{X*2 : p(X); X : p(X), X > 1}}, V {op} 4." + show, [""]
            yield f"{{p(-1..1)}}. a :- {fn}{{X : p(X)}} {op} 0." + show, [""]
            yield f"{{p(1..3)}}. a :- {fn}{{X,Y : p(X), p(Y), X < Y}} {op} 2." + show, [""]
            yield f"{{p(1..3)}}. a(V) :- V = {fn}{{f(X) : p(X)}}." + show, [""]
        # the value of a #min/#max in a sum element or an objective (telescoped by the trait)
        for fs in ("#sum", "#sum+"):
            for use in ("a(S) :- S = {fs}{{V,x : m(V)}}.", "a(S) :- S = {fs}{{V,x : m(V); 1,y : p(1)}}.", "a(S) :- S = {fs}{{V,x : m(V), V > -1}}.", "a(S) :- S = {fs}{{V,V : m(V)}}.", "a(S) :- S = {fs}{{-V,x : m(V)}}.", ":~ m(V). [V@1]", ":~ m(V), V > -1. [V@1]", ":~ m(V). [V@1,V]", ":~ m(V). [-V@1]", ":~ m(V). [V@1] :~ p(X). [X@1]"):
                yield f"{{p(-2..1)}}. m(V) :- V = {fn}{{X : p(X)}}. " + use.format(fs=fs) + show, [""]
            for use in (":~ m(_,V). [V@1]", "mm(V) :- m(_,V). :~ mm(V). [V@1]", ":~ m(G,V). [V@1]", ":~ m(G,V). [V@1,G]", "a(S) :- S = {fs}{{V : m(G,V)}}.", "a(S) :- S = {fs}{{V,G : m(G,V)}}.", "a(G) :- g(G), 0 < {fs}{{V : m(G,V)}}."):
                yield f"g(1..2). {{p(G,-2..1)}} :- g(G). m(G,V) :- g(G), V = {fn}{{X : p(G,X)}}. " + use.format(fs=fs) + show, [""]


def gen_sum_chains2():
    show = " #show total/1. #show p/2. #show p/1. #show s/2."
    for head in ("{{p(G,L) : v(L)}} 1 :- g(G).", "{{p(G,L) : v(L)}} = 1 :- g(G).", "1 {{p(G,L) : v(L)}} 1 :- g(G), q.", "{{p(G,L) : v(L), L > 0}} 1 :- g(G).", "{{p(G,L)}} 1 :- g(G), v(L).", "{{p(G,L) : v(L)}} 1 :- g(G). p(1,2) :- q."):
        for use in ("total(S) :- S = #sum{{L,G : p(G,L)}}.", "total(S) :- S = #sum{{L*2,G : p(G,L)}}.", "total(S) :- S = #sum{{L,G : p(G,L), not q}}.", "total(S) :- S = #sum{{L,G,L : p(G,L)}}.", "total(S) :- S = #sum{{L,G : p(G,L); K,G,x : p(G,K), K > 1}}.", "s(G,S) :- g(G), S = #sum{{L : p(G,L)}}.", "total(S) :- S = #sum{{-L,G : p(G,L)}}.", "#minimize{{L@G,G : p(G,L)}}.", "#minimize{{L,G : p(G,L)}}. #minimize{{1,G : p(G,2)}}.", ":~ p(G,L), not q. [L@1,G]", "#maximize{{L,G : p(G,L)}}.", "total(S) :- S = #sum{{L,G : p(G,L)}}, S < 3."):
            yield "g(1..2). v(-1..2). {q}. " + head.format() + " " + use.format() + show, [""]


def gen_inline2():
    show = " #show b/1. #show d/1. #show r/0. #show r/1. #show r/2."
    helpers = ["a(X) :- X = #sum{V : b(V)}.", "a(X) :- X = #sum{V : b(V)}, d(_).", "a(X,Y) :- X = #sum{V : b(V)}, Y = #count{V : b(V)}.", "a(X) :- X = #sum{V : b(V)} = X.", "a(X) :- X = #sum{V : b(V)}, X > 0.", "a(X) :- 0 < #sum{V : b(V)} = X.", "a(Y) :- X = #sum{V : b(V)}, Y = X + 1.", "a(X) :- X = #sum{V : b(V)}. a(0) :- d(2).", "{a(X)} :- X = #sum{V : b(V)}.", "a(X) :- not X != #sum{V : b(V)}, d(X)."]
    users = ["r(Y) :- a(X), Y = #sum{W : d(W)}, X < Y.", "r :- a(X), X > #count{W : d(W)}.", "r :- not a(2), 1 < #count{W : d(W)}.", "r(S) :- S = #sum{X,1 : a(X); X,2 : a(X)}.", "r(S) :- S = #sum{X : a(X)}, a(Y), Y > 1.", ":~ a(X). [X@1] :~ a(X). [1@2]", "r(S) :- S = #sum{X,Y : a(X,Y)}.", "r(S) :- S = #sum{X : a(X,Y), Y > 1}.", "r(X) :- a(X).", "#maximize{X : a(X)}."]
    for h in helpers:
        for u in users:
            yield "{b(-1..2)}. {d(1..2)}. " + h + " " + u + show, [""]


def gen_duplication():
    """literal sets shared by several bodies / conditions / aggregate elements / objectives"""
    show = " #show r/1. #show s/1. #show r/2. #show s/0."
    sets_ = ["a(X,Y), b(Y,Z)", "a(X,Y), not b(Y,X)", "a(X,Y), X < Y", "a(X,Y), b(Y,_)", "a(X,Y), b(Y,Z), c(Z)", "a(X,Y), Y = X + 1", "a(X,_), a(_,X)", "a(X,Y), b(Y,Z), Z != X", "a(X,Y), not not c(Y)", "a(X,X), c(X)"]
    uses = [
        ("r(X) :- {L}, c(X).", "s(X) :- {L}, not c(X)."),
        ("r(X) :- {L}.", "s(Y) :- {L}."),
        ("r(X) :- c(X), d(Q) : {L2}.", "s(X) :- c(X), not d(Q) : {L2}."),
        ("r(N) :- N = #sum{{X,Y : {L}}}.", "s(N) :- N = #count{{X : {L}, c(X)}}."),
        ("r(X) :- {L}, c(X).", ":~ {L}. [X@1,Y]"),
        ("r(X) :- {L}, c(X).", "s :- {L3}."),
        ("r(X) :- {L}, c(X).", "s(N) :- N = #max{{Y : {L}}}."),
        ("{{r(X)}} :- {L}.", ":- {L}, r(X), c(Y)."),
    ]
    for L in sets_:
        L2 = L.replace("X", "Q")
        L3 = L.replace("X", "U").replace("Y", "V").replace("Z", "W")
        for u1, u2 in uses:
            yield u1.format(L=L, L2=L2, L3=L3) + " " + u2.format(L=L, L2=L2, L3=L3) + show, ["a(1,2). a(2,3). b(2,3). b(3,1). c(1). c(3). d(1).", "a(1,1). a(2,1). b(1,2). b(1,1). c(2). d(2).", "a(1,2). c(1)."]


def gen_duplication2():
    """assignments (X = t, intervals, pools) in statements that share a literal set: duplication substitutes
    assignments before it matches, and restores statements it does not rewrite"""
    show = " #show r/1. #show s/1. #show r/0."
    assigns = ["X = 1..2", "X = (1;3)", "X = Y + 1", "X = 2", "X = Y"]
    for asg in assigns:
        for rule in ("r(X) :- p(X), q(X), {A}, a, b.", "r(X) :- p(X), {A}, a, b, c(Y).", "r(X) :- {A}, a, b, not q(X), p(X).", ":~ p(X), q(X), {A}, a, b. [X@1,X]", "r :- a, b, N = #count{{X : p(X), {A}}}, N > 0."):
            for other in ("s(Y) :- c(Y), a, b.", "s(1) :- a, b.", "s(Y) :- c(Y), a, b, Y = 1..3."):
                yield rule.format(A=asg) + " " + other + show, ["p(1). q(2). a. b. c(1).", "p(1). p(2). q(2). q(3). a. b. c(2).", "p(3). q(3). a. c(3)."]


def gen_sum_chains3():
    """compound terms at a group position of the at-most-one atom"""
    show = " #show start/2. #show load/1."
    for head in ("{ start(op(J,O),T) : time(T) } 1 :- op(J,O).", "{ start(f(J),T) : time(T) } 1 :- op(J,_).", "{ start((J,O),T) : time(T) } 1 :- op(J,O)."):
        for use in ("load(S) :- S = #sum{T,J : start(op(J,O),T)}.", "load(S) :- S = #sum{T,J,O : start(op(J,O),T)}.", "#minimize{T,J : start(op(J,O),T)}.", "#minimize{T,J,O : start(op(J,O),T)}.", "load(S) :- S = #sum{T,J : start(f(J),T)}.", "load(S) :- S = #sum{T : start(f(J),T)}.", "load(S) :- S = #sum{T,J : start((J,O),T)}.", "load(S) :- S = #sum{T,X : start(X,T)}."):
            yield "op(1,1). op(1,2). op(2,1). time(1..2). " + head + " " + use + show, [""]


def gen_unused4():
    """argument positions that are only read through compound terms with anonymous / singleton variables"""
    show = " #show out/1. #show e/2."
    defs = ["p(X,f(Y)) :- e(X,Y). p(X,g(Y)) :- e(Y,X).", "p(X,f(Y)) :- e(X,Y). p(X,Y) :- e(Y,X).", "p(X,(Y,1)) :- e(X,Y). p(X,(Y,2)) :- e(Y,X).", "p(X,f(Y)) :- e(X,Y)."]
    uses = ["out(X) :- p(X,f(_)).", "out(X) :- p(X,f(Y)).", "out(X) :- p(X,g(_)).", "out(X) :- p(X,(_,1)).", "out(X) :- p(X,_).", ":- p(X,f(_)), X > 1. out(X) :- e(X,_).", ":~ p(X,f(_)). [1@1,X] out(X) :- e(X,_).", "out(X) :- p(X,f(Y)), Y > 1."]
    for d_ in defs:
        for u in uses:
            yield "{e(1..2,1..2)}. " + d_ + " " + u + show, [""]


GENERATORS = {
    "duplication": gen_duplication,
    "none": gen_none,
    "inline": gen_inline,
    "minmax_chains": gen_minmax,
    "sum_chains": gen_sum_chains,
    "symmetry": gen_symmetry,
    "unused": gen_unused,
    "cleanup": gen_cleanup,
    "math": gen_math,
    "projection": gen_projection,
}
# second-wave schemas (run in addition to the first wave of the same trait)
EXTRA = {
    "cleanup": [gen_cleanup2, gen_cleanup3, gen_cleanup4],
    "projection": [gen_projection2],
    "unused": [gen_unused2, gen_unused3, gen_unused4],
    "duplication": [gen_duplication2],
    "math": [gen_math2],
    "minmax_chains": [gen_minmax2],
    "sum_chains": [gen_sum_chains2, gen_sum_chains3],
    "inline": [gen_inline2],
}


def sample(trait, n, seed=0):
    """the first n programs of a deterministic shuffle of the trait's generated programs (n <= 0: all)"""
    progs = list(GENERATORS[trait]())
    for g in EXTRA.get(trait, []):
        progs.extend(g())
    random.Random(seed).shuffle(progs)
    return progs if n <= 0 else progs[:n]
