"""Executable mirrors of postconditions, evaluated natively on the real code with the solver's counter-model.
Each mirror returns {"confirmed": True|False, ...}: True = the real function violates the postcondition on
this input.  Runs under /venv/bin/python with the working tree of /repo on sys.path."""
from __future__ import annotations

import clingo
import clingo.ast as A
from clingo.ast import ComparisonOperator as CO

from native.build import LOC, build

OPS = {n: getattr(CO, n) for n in ("Equal", "NotEqual", "LessThan", "LessEqual", "GreaterThan", "GreaterEqual")}
PYOP = {
    "Equal": lambda a, b: a == b,
    "NotEqual": lambda a, b: a != b,
    "LessThan": lambda a, b: a < b,
    "LessEqual": lambda a, b: a <= b,
    "GreaterThan": lambda a, b: a > b,
    "GreaterEqual": lambda a, b: a >= b,
}
NAME_OF = {v: k for k, v in OPS.items()}
SAMPLE_INTS = [-2, -1, 0, 1, 2, 3]

MIRRORS = {}


def mirror(name):
    def deco(f):
        MIRRORS[name] = f
        return f

    return deco


def run(req):
    extra = req.get("extra") or {}
    try:
        return MIRRORS[req["mirror"]](req["model"], extra)
    except Exception as e:  # pylint: disable=broad-except
        if extra.get("no_exception"):
            import traceback

            return {"confirmed": True, "exception": repr(e), "where": traceback.format_exc().strip().splitlines()[-4:]}
        raise


@mirror("compare")
def _compare(model, extra):
    from ngo.utils.ast import compare

    a, b, op = model["a"], model["b"], model["op"]
    got = compare(a, OPS[op], b)
    want = PYOP[op](a, b)
    return {"confirmed": bool(got) != bool(want), "call": f"compare({a}, {op}, {b})", "got": got, "want": want}


@mirror("negate_comparison")
def _negate(model, extra):
    from ngo.utils.ast import negate_comparison

    op = model["op"]
    got = NAME_OF[negate_comparison(OPS[op])]
    bad = [(a, b) for a in SAMPLE_INTS for b in SAMPLE_INTS if (not PYOP[op](a, b)) != PYOP[got](a, b)]
    return {"confirmed": bool(bad), "call": f"negate_comparison({op})", "got": got, "witness_pairs": bad[:3]}


@mirror("rhs2lhs_comparison")
def _flip(model, extra):
    from ngo.utils.ast import rhs2lhs_comparison

    op = model["op"]
    got = NAME_OF[rhs2lhs_comparison(OPS[op])]
    bad = [(a, b) for a in SAMPLE_INTS for b in SAMPLE_INTS if PYOP[op](a, b) != PYOP[got](b, a)]
    return {"confirmed": bool(bad), "call": f"rhs2lhs_comparison({op})", "got": got, "witness_pairs": bad[:3]}


# ---------------------------------------------------------------------------------------------
# C05 guards
SAMPLE_SYMS = [clingo.Infimum, clingo.Number(-1), clingo.Number(0), clingo.Number(1), clingo.Function("a", []), clingo.String("s"), clingo.Supremum]


def sym_cmp(op, a, b):
    return PYOP[NAME_OF[op] if not isinstance(op, str) else op](a, b)


def term_value(term, assignment):
    if term.ast_type == A.ASTType.SymbolicTerm:
        return term.symbol
    return assignment[str(term)]


def guards_hold(agg, v, assignment):
    ok = True
    if agg.left_guard is not None:
        ok = ok and sym_cmp(A.ComparisonOperator(agg.left_guard.comparison), term_value(agg.left_guard.term, assignment), v)
    if agg.right_guard is not None:
        ok = ok and sym_cmp(A.ComparisonOperator(agg.right_guard.comparison), v, term_value(agg.right_guard.term, assignment))
    return ok


@mirror("guards")
def _guards(model, extra):
    import itertools

    from ngo.normalize import remove_unecessary_bounds

    agg = build(model["bodyagg"])
    rule = A.Rule(A.Location(A.Position("<cex>", 1, 1), A.Position("<cex>", 1, 1)), A.Literal(LOC, A.Sign.NoSign, A.BooleanConstant(False)), [A.Literal(LOC, A.Sign.NoSign, agg)])
    new_rule = remove_unecessary_bounds([rule])[0]
    new = new_rule.body[0].atom
    open_terms = sorted({str(g.term) for g in (agg.left_guard, agg.right_guard, new.left_guard, new.right_guard) if g is not None and g.term.ast_type != A.ASTType.SymbolicTerm})
    for vals in itertools.product(SAMPLE_SYMS, repeat=len(open_terms)):
        assignment = dict(zip(open_terms, vals))
        for v in SAMPLE_SYMS:
            if guards_hold(agg, v, assignment) != guards_hold(new, v, assignment):
                return {"confirmed": True, "old": str(agg), "new": str(new), "aggregate_value": str(v), "assignment": {k: str(x) for k, x in assignment.items()}}
    if new.right_guard is not None and new.left_guard is None:
        return {"confirmed": True, "old": str(agg), "new": str(new), "why": "right guard without left guard"}
    if new.function != agg.function or list(new.elements) != list(agg.elements):
        return {"confirmed": True, "old": str(agg), "new": str(new), "why": "function/elements changed"}
    return {"confirmed": False, "old": str(agg), "new": str(new)}


# ---------------------------------------------------------------------------------------------
# AggAnalytics (C12/C13)
def _open_terms(guards):
    out = set()
    for g in guards:
        if g is not None and g.term.ast_type != A.ASTType.SymbolicTerm:
            out.add(str(g.term))
    return sorted(out)


@mirror("agg_analytics")
def _agg_analytics(model, extra):
    import itertools

    from ngo.utils.ast import AggAnalytics

    node = build(model["node"])
    an = AggAnalytics(node)
    for b in an.bounds:
        if b.ast_type != A.ASTType.Guard:
            return {"confirmed": True, "why": "bound is not a Guard", "node": str(node)}
    names = sorted(set(_open_terms([node.left_guard, node.right_guard] + list(an.bounds))) | set(an.equal_variable_bound))
    for vals in itertools.product(SAMPLE_SYMS, repeat=len(names)):
        asg = dict(zip(names, vals))
        for v in SAMPLE_SYMS:
            orig = True
            if node.left_guard is not None:
                orig = orig and sym_cmp(A.ComparisonOperator(node.left_guard.comparison), term_value(node.left_guard.term, asg), v)
            if node.right_guard is not None:
                orig = orig and sym_cmp(A.ComparisonOperator(node.right_guard.comparison), v, term_value(node.right_guard.term, asg))
            ana = all(sym_cmp(A.ComparisonOperator(b.comparison), v, term_value(b.term, asg)) for b in an.bounds) and all(asg[n] == v for n in an.equal_variable_bound)
            if orig != ana:
                return {
                    "confirmed": True,
                    "node": str(node),
                    "bounds": [str(b.comparison) + " " + str(b.term) for b in an.bounds],
                    "equal_variable_bound": an.equal_variable_bound,
                    "aggregate_value": str(v),
                    "assignment": {k: str(x) for k, x in asg.items()},
                    "guards_hold": orig,
                    "analysis_holds": ana,
                }
    return {"confirmed": False, "node": str(node)}


@mirror("guaranteed")
def _guaranteed(model, extra):
    from ngo.utils.ast import AggAnalytics

    bounds = build(model["bounds"])
    number = model["number"]
    an = AggAnalytics.__new__(AggAnalytics)
    an.bounds = bounds
    an.equal_variable_bound = []
    fname = extra["fname"]
    res = getattr(an, fname)(number)
    if not res:
        return {"confirmed": False, "result": res}
    open_terms = _open_terms(bounds)
    import itertools

    cands = SAMPLE_SYMS + [clingo.Number(number + d) for d in (-2, -1, 0, 1, 2)]
    for vals in itertools.product(SAMPLE_SYMS, repeat=len(open_terms)):
        asg = dict(zip(open_terms, vals))
        for v in cands:
            if all(sym_cmp(A.ComparisonOperator(b.comparison), v, term_value(b.term, asg)) for b in bounds):
                good = v <= clingo.Number(number) if fname == "guaranteed_leq" else v >= clingo.Number(number)
                if not good:
                    return {"confirmed": True, "call": f"{fname}({number})", "bounds": [str(b.comparison) + " " + str(b.term) for b in bounds], "aggregate_value": str(v), "result": res}
    return {"confirmed": False, "result": res}


# ---------------------------------------------------------------------------------------------
# C08: brute-force referee for literal implication under valid mappings
def _lit_parts(lit):
    sym = lit.atom.symbol
    return (sym.name, len(sym.arguments)), list(sym.arguments), A.Sign(lit.sign)


def _arg_value(arg, env, exist):
    """value of an atom argument: `_` -> taken from exist (iterator position), Variable -> env, number -> itself,
    anything else -> pseudo variable named by its text"""
    if arg.ast_type == A.ASTType.Variable:
        if arg.name == "_":
            return exist
        return env[arg.name]
    if arg.ast_type == A.ASTType.SymbolicTerm and arg.symbol.type == clingo.SymbolType.Number:
        return arg.symbol.number
    return env[str(arg)]


def _atom_true(I, pred, args, env, dom):
    import itertools

    anon = [i for i, a in enumerate(args) if a.ast_type == A.ASTType.Variable and a.name == "_"]
    base = [None if i in anon else _arg_value(a, env, None) for i, a in enumerate(args)]
    for vals in itertools.product(dom, repeat=len(anon)):
        t = list(base)
        for i, v in zip(anon, vals):
            t[i] = v
        if (pred, tuple(t)) in I:
            return True
    return False


def _lit_holds(I, lit, env, dom):
    pred, args, sign = _lit_parts(lit)
    t = _atom_true(I, pred, args, env, dom)
    return (not t) if sign == A.Sign.Negation else t


def _mapping_valid(I, mp, dom):
    import itertools

    for a in itertools.product(dom, repeat=mp.head_pred.arity):
        if (("%s" % mp.head_pred.name, mp.head_pred.arity), a) in I:
            b = tuple(a[i] for i in mp.var_map)
            t = ((mp.body_pred.pred.name, mp.body_pred.pred.arity), b) in I
            if mp.body_pred.sign == A.Sign.Negation:
                t = not t
            if not t:
                return False
    return True


def find_countermodel(lhs, rhs, mappings, limit=40000, seed=0):
    """search an interpretation + assignment with all mappings valid, lhs true, rhs false"""
    import itertools
    import random

    names = set()
    nums = set()
    for lit in (lhs, rhs):
        _p, args, _s = _lit_parts(lit)
        for a in args:
            if a.ast_type == A.ASTType.Variable:
                if a.name != "_":
                    names.add(a.name)
            elif a.ast_type == A.ASTType.SymbolicTerm and a.symbol.type == clingo.SymbolType.Number:
                nums.add(a.symbol.number)
            else:
                names.add(str(a))
    dom = sorted(set([1, 2]) | nums)[:3]
    preds = {_lit_parts(lhs)[0], _lit_parts(rhs)[0]}
    for mp in mappings:
        preds.add((mp.head_pred.name, mp.head_pred.arity))
        preds.add((mp.body_pred.pred.name, mp.body_pred.pred.arity))
    if any(p[1] > 3 for p in preds) or len(names) > 5:
        return None
    atoms = [(p, t) for p in sorted(preds) for t in itertools.product(dom, repeat=p[1])]
    names = sorted(names)
    rnd = random.Random(seed)

    def interps():
        if len(atoms) <= 14:
            for bits in itertools.product((False, True), repeat=len(atoms)):
                yield {a for a, b in zip(atoms, bits) if b}
        else:
            for _ in range(limit):
                yield {a for a in atoms if rnd.random() < 0.5}

    import time

    t_end = time.time() + 15
    tried = 0
    if any(p[1] > 3 for p in preds) or len(names) > 5:
        return None
    for I in interps():
        tried += 1
        if tried > limit or time.time() > t_end:
            break
        if not all(_mapping_valid(I, mp, dom) for mp in mappings):
            continue
        for vals in itertools.product(dom, repeat=len(names)):
            env = dict(zip(names, vals))
            if _lit_holds(I, lhs, env, dom) and not _lit_holds(I, rhs, env, dom):
                return {"interpretation": sorted(f"{p[0]}{t}" for p, t in I), "assignment": env}
    return None


def _wellformed_mapping(mp):
    return len(mp.var_map) == mp.body_pred.pred.arity and all(0 <= i < mp.head_pred.arity for i in mp.var_map)


@mirror("superseeded")
def _superseeded(model, extra):
    from ngo.cleanup import CleanupTranslator

    lhs, rhs = build(model["lhs"]), build(model["rhs"])
    mappings = [mp for mp in build(model.get("superseeds") or []) if _wellformed_mapping(mp)]
    ct = CleanupTranslator([])
    ct.superseeds = set(mappings)
    res = ct._superseeded(lhs, rhs)  # pylint: disable=protected-access
    info = {"call": f"_superseeded({lhs}, {rhs})", "superseeds": [str(m) for m in mappings], "result": res}
    if not res:
        return {"confirmed": False, **info}
    cm = find_countermodel(lhs, rhs, mappings)
    if cm is None:
        return {"confirmed": False, **info}
    return {"confirmed": True, **info, "countermodel": cm, "why": "all mappings are valid in this interpretation, lhs holds, rhs does not, yet rhs is reported as superseeded"}


# ---------------------------------------------------------------------------------------------
# C08 boolean constants: referee = clingo's own reading of `#true` / `#false` (ground a tiny program)
def _is_const_lit(x):
    return x.ast_type == A.ASTType.Literal and x.atom.ast_type == A.ASTType.BooleanConstant


def _const_value(x):
    """truth value of a constant body element, or None if it is not constant"""
    if _is_const_lit(x):
        v = bool(x.atom.value)
        return (not v) if x.sign == A.Sign.Negation else v
    if x.ast_type == A.ASTType.ConditionalLiteral and len(x.condition) == 0:
        return _const_value(x.literal)
    return None


@mirror("bool_const")
def _bool_const(model, extra):
    from ngo.cleanup import CleanupTranslator

    x = build(model["stm"])
    res = getattr(CleanupTranslator, extra["fname"])(x)
    cv = _const_value(x)
    want = True if extra["fname"] == "true" else False
    return {"confirmed": bool(res) and cv is not want, "call": f"{extra['fname']}({x})", "result": res, "constant_value": cv}


@mirror("remove_true_literals")
def _remove_true(model, extra):
    from ngo.cleanup import CleanupTranslator

    lits = build(model["lits"])
    res = CleanupTranslator.remove_true_literals(lits)
    dropped = [l for l in lits if l not in res]
    bad = [str(l) for l in dropped if _const_value(l) is not True] + [str(r) for r in res if r not in lits]
    kept_true = []
    return {"confirmed": bool(bad), "input": [str(l) for l in lits], "result": [str(r) for r in res], "wrongly_dropped_or_invented": bad}


@mirror("contains_false")
def _contains_false(model, extra):
    from ngo.cleanup import CleanupTranslator

    lits = build(model["lits"])
    res = CleanupTranslator.contains_false(lits)
    has = any(_const_value(l) is False for l in lits)
    return {"confirmed": bool(res) and not has, "input": [str(l) for l in lits], "result": res}


# ---------------------------------------------------------------------------------------------
# C19
TRAITS = ["minmax_chains", "symmetry", "duplication", "cleanup", "unused", "sum_chains", "math", "inline", "projection"]
TOKENS = ["all", "none", "default"] + TRAITS


def _tokens_from_model(model):
    toks = []
    for t in TOKENS:
        toks += [t] * min(int(model.get("n_" + t, 0)), 3)
    return toks


def _expected_enable(toks):
    return {k for k in TRAITS if "all" in toks or k in toks or ("default" in toks and k != "duplication")}


@mirror("verify_enable")
def _verify_enable(model, extra):
    from argparse import ArgumentTypeError

    from ngo.utils.parser import get_parser

    toks = _tokens_from_model(model)
    if not toks:
        return {"confirmed": False, "why": "empty token list is rejected by argparse"}
    want_error = "none" in toks and len(toks) > 1
    try:
        args = get_parser().parse_args(["--enable"] + toks)
    except ArgumentTypeError as e:
        return {"confirmed": not want_error, "argv": toks, "got": "ArgumentTypeError: " + str(e), "want_error": want_error}
    got = {k for k in TRAITS if k in args.enable}
    return {"confirmed": want_error or got != _expected_enable(toks), "argv": toks, "got": sorted(got), "want": sorted(_expected_enable(toks)), "want_error": want_error}


PRG = "{a(1..3)}. b(X) :- a(X), not c(X). c(X) :- a(X), X > 1. x :- b(X), b(X). #show b/1."


PRGS = [PRG, "{ a(X) : b(X) }. c(X) :- a(X). d(X,Y) :- c(X), b(Y). e(X) :- d(X,_). #show e/1.", "{a; b; c; d}. foo :- a, b, c. bar :- a, b, d. #show foo/0."]


@mirror("main_wiring")
def _main_wiring(model, extra):
    import os
    import subprocess
    import sys

    from clingo.ast import parse_string

    from ngo.api import optimize
    from ngo.utils.ast import Predicate
    from ngo.utils.globals import auto_detect_input, auto_detect_output

    toks = _tokens_from_model(model) or ["default"]
    if "none" in toks and len(toks) > 1:
        toks = ["none"]
    tok_lists = [toks] if _tokens_from_model(model) else [["default"], ["all"], ["cleanup", "unused"]]
    confirmed = []
    optsets = ([], ["--input-predicates", "a/1"], ["--output-predicates", ""], ["--output-predicates"], ["--input-predicates", "auto", "--output-predicates", "e/1"], ["--input-predicates", ""])
    for text in PRGS:
        for tl in tok_lists:
            for opts in optsets:
                r = subprocess.run([sys.executable, "-m", "ngo", "--enable"] + tl + opts, input=text, capture_output=True, text=True, env=dict(os.environ), timeout=60)
                prg = []
                parse_string(text, prg.append)
                inp = auto_detect_input(prg)
                outp = auto_detect_output(prg)
                if "--input-predicates" in opts:
                    v = opts[opts.index("--input-predicates") + 1]
                    inp = {"auto": inp, "": [], "a/1": [Predicate("a", 1)]}[v]
                if "--output-predicates" in opts:
                    k = opts.index("--output-predicates")
                    v = opts[k + 1] if k + 1 < len(opts) else ""
                    outp = [] if v == "" else [Predicate("e", 1)]
                en = _expected_enable(tl)
                want = "".join(str(s) + "\n" for s in optimize(prg, inp, outp, **{k: (k in en) for k in TRAITS}))
                if r.stdout != want or r.returncode != 0:
                    confirmed.append({"argv": ["--enable"] + tl + opts, "program": text, "stdout": r.stdout[-600:], "want": want[-600:], "rc": r.returncode, "stderr": r.stderr[-300:]})
                if confirmed:
                    return {"confirmed": True, "mismatches": confirmed[:2]}
    return {"confirmed": False, "bounded": True, "bound": f"{len(PRGS)} programs x {len(tok_lists)} enable lists x {len(optsets)} predicate option sets"}


@mirror("parser_constants")
def _parser_constants(model, extra):
    import inspect

    from ngo.api import optimize
    from ngo.utils.parser import ALL_OPTIONS, DEFAULT_OPTIONS

    bools = {k: p.default for k, p in inspect.signature(optimize).parameters.items() if isinstance(p.default, bool)}
    bad = sorted(ALL_OPTIONS) != sorted(bools) or sorted(DEFAULT_OPTIONS) != sorted(set(ALL_OPTIONS) - {"duplication"}) or sorted(DEFAULT_OPTIONS) != sorted(k for k, v in bools.items() if v) or sorted(ALL_OPTIONS) != sorted(TRAITS)
    return {"confirmed": bad, "ALL_OPTIONS": ALL_OPTIONS, "DEFAULT_OPTIONS": DEFAULT_OPTIONS, "optimize_flags": bools}


@mirror("stdout_scan")
def _stdout_scan(model, extra):
    import os
    import subprocess
    import sys

    r = subprocess.run([sys.executable, "-m", "ngo", "--enable", "all", "--log", "debug"], input=PRG, capture_output=True, text=True, env=dict(os.environ), timeout=60)
    from clingo.ast import parse_string

    bad = []
    for line in r.stdout.splitlines():
        try:
            parse_string(line, lambda s: None)
        except RuntimeError:
            bad.append(line)
    return {"confirmed": bool(bad), "non_program_lines_on_stdout": bad[:5]}


PASS_TABLE = [
    ("cleanup", "CleanupTranslator", ["IN"]),
    ("unused", "UnusedTranslator", ["PRG", "IN", "OUT"]),
    ("duplication", "LiteralDuplicationTranslator", ["PRG", "IN"]),
    ("symmetry", "SymmetryTranslator", ["PRG", "IN"]),
    ("minmax_chains", "MinMaxAggregator", ["PRG", "IN"]),
    ("sum_chains", "SumAggregator", ["PRG", "IN"]),
    ("math", "MathSimplification", ["PRG"]),
    ("inline", "InlineTranslator", ["PRG", "IN", "OUT"]),
    ("projection", "ProjectionTranslator", ["PRG", "IN"]),
]


@mirror("optimize_gating")
def _optimize_gating(model, extra):
    """run the real ngo.api.optimize with every pass replaced by a recorder that tags the program it returns"""
    import ngo.api as api

    flags = {fl: bool(model.get("flag_" + fl, False)) for fl, _c, _k in PASS_TABLE}
    log = []
    IN, OUT = ["IN"], ["OUT"]
    saved = {}
    counter = {"round": 0}

    def mk(cls):
        class Rec:  # pylint: disable=too-few-public-methods
            def __init__(self, *a, **k):
                self.a = a
                log.append(("init", cls, a, k))

            def execute(self, prg):
                log.append(("execute", cls, prg))
                # change the program in the first round only, so that the loop runs exactly twice
                return list(prg) + ([cls] if counter["round"] == 0 else [])

        return Rec

    def tagger(name):
        def f(prg):
            log.append((name, list(prg)))
            if name == "exline_arithmetic":
                counter["round"] += 1
            return list(prg) + ([name] if name != "exline_arithmetic" else [])

        return f

    for _fl, cls, _k in PASS_TABLE:
        saved[cls] = getattr(api, cls)
        setattr(api, cls, mk(cls))
    for name in ("preprocess", "postprocess", "exline_arithmetic"):
        saved[name] = getattr(api, name)
        setattr(api, name, tagger(name))
    try:
        res = api.optimize(["P"], IN, OUT, **flags)
    finally:
        for k, v in saved.items():
            setattr(api, k, v)
    # expected trace
    problems = []
    pos = 0
    cur = ["P"]

    def expect(ev):
        nonlocal pos
        if pos >= len(log) or log[pos][:2] != ev[:2]:
            problems.append({"at": pos, "want": str(ev)[:200], "got": str(log[pos])[:200] if pos < len(log) else None})
            return None
        pos += 1
        return log[pos - 1]

    e = expect(("preprocess", cur))
    cur = cur + ["preprocess"]
    for rnd in range(2):
        for fl, cls, kinds in PASS_TABLE:
            if not flags[fl]:
                continue
            e = expect(("init", cls))
            if e is not None:
                want = tuple({"PRG": cur, "IN": IN, "OUT": OUT}[k] for k in kinds)
                if tuple(e[2]) != want or e[3]:
                    problems.append({"constructor": cls, "got": str(e[2])[:200], "want": str(want)[:200]})
            e = expect(("execute", cur))
            if e is not None and (e[1] != cls or e[2] != cur):
                problems.append({"execute": cls, "got": str(e)[:200], "want_program": str(cur)})
            if rnd == 0:
                cur = cur + [cls]
        e = expect(("exline_arithmetic", cur))
        if not any(flags.values()):
            break
    e = expect(("postprocess", cur))
    if pos != len(log):
        problems.append({"extra_events": [str(x)[:100] for x in log[pos:][:4]]})
    if res != cur + ["postprocess"]:
        problems.append({"result": str(res), "want": str(cur + ["postprocess"])})
    return {"confirmed": bool(problems), "flags": flags, "problems": problems[:4]}


# ---------------------------------------------------------------------------------------------
# C07 names.  The solver's model fixes arity/counter; string *contents* are abstract in the model, so the
# known-name set is rebuilt natively in the adversarial shape the obligation is about (similar, similar1, ...)
def _names_state(model, similar):
    from ngo.utils.ast import Predicate

    ar = int(model.get("arity", 1))
    ar = max(0, min(ar, 5))
    known = {Predicate(similar, ar)} | {Predicate(similar + str(i), ar) for i in range(1, 4)} | {Predicate("__aux_" + str(i), ar) for i in range(0, 4)}
    return ar, known


def _check_fresh(un, before, res, ar):
    problems = []
    if res in before:
        problems.append(f"{res} was already known")
    if res.arity != ar:
        problems.append(f"arity {res.arity} != {ar}")
    if un.predicates != before | {res}:
        problems.append("known set is not old + {result}")
    return problems


@mirror("new_predicate")
def _new_predicate(model, extra):
    from ngo.utils.globals import UniqueNames

    ar, known = _names_state(model, "p")
    un = UniqueNames([], [])
    un.predicates = set(known)
    problems = []
    r1 = un.new_predicate("p", ar)
    problems += _check_fresh(un, set(known), r1, ar)
    mid = set(un.predicates)
    r2 = un.new_predicate("p", ar)
    problems += _check_fresh(un, mid, r2, ar)
    if not (r1.name.startswith("p") and r2.name.startswith("p")):
        problems.append("name does not extend the requested one")
    return {"confirmed": bool(problems), "known": sorted(map(str, known)), "results": [str(r1), str(r2)], "problems": problems}


@mirror("new_auxpredicate")
def _new_auxpredicate(model, extra):
    from ngo.utils.globals import UniqueNames

    ar, known = _names_state(model, "p")
    problems = []
    for start in (0, max(0, min(int(model.get("auxcounter", 0)), 3))):
        un = UniqueNames([], [])
        un.predicates = set(known)
        un.auxcounter = start
        r1 = un.new_auxpredicate(ar)
        problems += _check_fresh(un, set(known), r1, ar)
        mid = set(un.predicates)
        c1 = un.auxcounter
        r2 = un.new_auxpredicate(ar)
        problems += _check_fresh(un, mid, r2, ar)
        if not (c1 > start and un.auxcounter > c1):
            problems.append("counter did not grow")
    return {"confirmed": bool(problems), "known": sorted(map(str, known)), "problems": problems}


@mirror("make_unique")
def _make_unique(model, extra):
    """black-box: request sequences against the specification of freshness (independent of the representation of
    the known-variable store)"""
    import itertools

    from clingo.ast import parse_string

    from ngo.utils.globals import UniqueVariables

    problems = []
    rules = ["a(X,AUX,AUX0,X0,X1) :- b(X,Y0).", "a(X) :- b(X,D,D1).", ":~ a(X,AUX). [X@1,AUX]"]
    names = ["X", "X0", "AUX", "AUX0", "Y", "Y0", "D", "D0", "_"]
    for text in rules:
        stms = []
        parse_string(text, stms.append)
        rule = stms[-1]
        base = {str(v) for v in _collect_vars(rule)}
        for seq in itertools.product(names, repeat=3):
            uv = UniqueVariables(rule)
            known = set(base)
            for nm in seq:
                r = uv.make_unique(A.Variable(LOC, nm))
                if nm == "_":
                    if r.name != "_":
                        problems.append(f"{text} {seq}: `_` changed to {r}")
                    continue
                if r.ast_type != A.ASTType.Variable:
                    problems.append(f"{text} {seq}: result {r} is not a variable")
                elif nm not in known:
                    if r.name != nm:
                        problems.append(f"{text} {seq}: unknown name {nm} was renamed to {r}")
                elif r.name in known:
                    problems.append(f"{text} {seq}: request {nm} returned {r}, which is already in use ({sorted(known)})")
                known.add(r.name)
                if problems:
                    return {"confirmed": True, "bounded": True, "problems": problems[:3]}
    return {"confirmed": False, "bounded": True, "bound": f"{len(rules)} rules x all request sequences of length 3 over {names}"}


def _collect_vars(stm):
    from ngo.utils.ast import collect_ast

    return collect_ast(stm, "Variable")


# ---------------------------------------------------------------------------------------------
# C11
@mirror("inequalities")
def _inequalities(model, extra):
    import itertools

    from ngo.symmetry import SymmetryTranslator

    body = [b for b in build(model["body"]) if b is not None]
    try:
        ret = SymmetryTranslator._inequalities(body)  # pylint: disable=protected-access
    except Exception as e:  # pylint: disable=broad-except
        return {"confirmed": False, "exception": repr(e)}
    vals = [clingo.Number(1), clingo.Number(2), clingo.Function("a", [])]
    for op, entries in ret.items():
        opn = NAME_OF[A.ComparisonOperator(op)]
        if opn not in ("NotEqual", "LessThan"):
            return {"confirmed": True, "why": f"unexpected key {opn}"}
        for lit, x, y in entries:
            if lit not in body:
                return {"confirmed": True, "why": f"{lit} is not a literal of the body"}
            g = lit.atom.guards[0]
            for vx, vy in itertools.product(vals, repeat=2):
                asg = {str(x): vx, str(y): vy}
                if str(lit.atom.term) not in asg or str(g.term) not in asg:
                    continue
                holds = sym_cmp(A.ComparisonOperator(g.comparison), asg[str(lit.atom.term)], asg[str(g.term)])
                if lit.sign == A.Sign.Negation:
                    holds = not holds
                rel = (vx != vy) if opn == "NotEqual" else (vx < vy)
                if holds and not rel:
                    return {"confirmed": True, "literal": str(lit), "recorded_as": f"{x} {'!=' if opn == 'NotEqual' else '<'} {y}", "assignment": {k: str(v) for k, v in asg.items()}}
    return {"confirmed": False, "body": [str(b) for b in body]}


# ---------------------------------------------------------------------------------------------
# C12: end-to-end referee (clingo) for one (function, guards, sign) combination taken from the counter-model
OPSTR = {"Equal": "=", "NotEqual": "!=", "LessThan": "<", "LessEqual": "<=", "GreaterThan": ">", "GreaterEqual": ">="}
SIGNSTR = {"NoSign": "", "Negation": "not ", "DoubleNegation": "not not "}


def _first_minmax(model_rule):
    body = (model_rule or {}).get("body") or []
    for b in body:
        if isinstance(b, dict) and b.get("ast") == "Literal" and isinstance(b.get("atom"), dict) and b["atom"].get("ast") == "BodyAggregate":
            if b["atom"].get("function") in ("Min", "Max"):
                return b
    return None


def _minmax_end_to_end(lit, known_classes=()):
    from native.witnesses import models, optimise

    atom = lit["atom"]
    f = "#min" if atom["function"] == "Min" else "#max"
    lg, rg = atom.get("left_guard"), atom.get("right_guard")
    left = f"T {OPSTR[lg['comparison']]} " if lg else ""
    right = f" {OPSTR[rg['comparison']]} 2" if rg else ""
    sign = SIGNSTR[lit["sign"]]
    problems = []
    for choice in ("{p(1..3)}.", "{p(2)}.", "p(1). {p(3)}."):
        prg = f"{choice} q(0..4). a(T) :- q(T), {sign}{left}{f}{{X : p(X)}}{right}. #show a/1. #show p/1."
        try:
            new = optimise(prg, ["minmax_chains"])
        except Exception as e:  # pylint: disable=broad-except
            problems.append({"program": prg, "exception": repr(e)})
            continue
        a, b = models(prg), models(new)
        if a != b:
            problems.append({"program": prg, "optimised": new, "source_answer_sets": len(a), "result_answer_sets": len(b), "first_difference": [x for x in a if x not in b][:1] + [x for x in b if x not in a][:1]})
    return problems


@mirror("process_rule")
def _process_rule(model, extra):
    lit = _first_minmax(model.get("rule"))
    if lit is None:
        return {"confirmed": False, "why": "no #min/#max aggregate in the counter-model"}
    problems = _minmax_end_to_end(lit)
    return {"confirmed": bool(problems), "combination": {"function": lit["atom"]["function"], "sign": lit["sign"], "left": (lit["atom"].get("left_guard") or {}).get("comparison"), "right": (lit["atom"].get("right_guard") or {}).get("comparison")}, "problems": problems[:2]}


@mirror("replace_orig")
def _replace_orig(model, extra):
    lit = model.get("agg")
    if not isinstance(lit, dict) or not isinstance(lit.get("atom"), dict):
        return {"confirmed": False}
    lit = dict(lit)
    lit["atom"] = dict(lit["atom"])
    if lit["atom"].get("function") not in ("Min", "Max"):
        lit["atom"]["function"] = "Max"
    if lit["sign"] != "NoSign":
        return {"confirmed": False, "why": "negated aggregate: recorded known finding C12-replace-orig-drops-sign"}
    problems = _minmax_end_to_end(lit)
    return {"confirmed": bool(problems), "problems": problems[:2]}


@mirror("minmax_agg")
def _minmax_agg(model, extra):
    from ngo.minmax_aggregates import MinMaxAggregator

    rule = build(model["rule"])
    mm = MinMaxAggregator([], [])
    r = mm._minmax_agg(rule)  # pylint: disable=protected-access
    if r is None:
        return {"confirmed": False}
    ok = r in list(rule.body) and r.ast_type == A.ASTType.Literal and r.atom.ast_type == A.ASTType.BodyAggregate and r.atom.function in (A.AggregateFunction.Min, A.AggregateFunction.Max)
    return {"confirmed": not ok, "result": str(r)}


# ---------------------------------------------------------------------------------------------
# C08 closure / mappings: semantic referee by enumeration of small interpretations
def _closure_check(mappings):
    import itertools

    from ngo.cleanup import CleanupTranslator

    mappings = [mp for mp in mappings if _wellformed_mapping(mp) and mp.head_pred.arity <= 2 and mp.body_pred.pred.arity <= 2]
    try:
        res = CleanupTranslator.transitive_closure(set(mappings))
    except Exception as e:  # pylint: disable=broad-except
        return {"exception": repr(e), "input": [str(m) for m in mappings]}
    if not set(mappings) <= res:
        return {"why": "closure lost an input mapping", "input": [str(m) for m in mappings]}
    preds = set()
    for mp in list(mappings) + list(res):
        preds.add((mp.head_pred.name, mp.head_pred.arity))
        preds.add((mp.body_pred.pred.name, mp.body_pred.pred.arity))
    dom = [1, 2]
    atoms = [(p, t) for p in sorted(preds) for t in itertools.product(dom, repeat=p[1])]
    if len(atoms) > 16:
        return None
    for mp in res:
        if not _wellformed_mapping(mp):
            return {"why": "ill-formed mapping in closure", "mapping": str(mp), "input": [str(m) for m in mappings]}
    new = [mp for mp in res if mp not in mappings]
    for bits in itertools.product((False, True), repeat=len(atoms)):
        I = {a for a, b in zip(atoms, bits) if b}
        if not all(_mapping_valid(I, mp, dom) for mp in mappings):
            continue
        for mp in new:
            if not _mapping_valid(I, mp, dom):
                return {"why": "all given mappings are valid in this interpretation but a derived one is not", "derived": str(mp), "input": [str(m) for m in mappings], "interpretation": sorted(f"{p[0]}{t}" for p, t in I)}
    return None


def _adversarial_mapping_sets():
    from ngo.cleanup import Mapping
    from ngo.utils.ast import Predicate, SignedPredicate

    S = A.Sign
    a2, b2, c1, c2, d1 = Predicate("a", 2), Predicate("b", 2), Predicate("c", 1), Predicate("c", 2), Predicate("d", 1)
    return [
        [Mapping(a2, SignedPredicate(S.NoSign, b2), (1, 0)), Mapping(b2, SignedPredicate(S.NoSign, c1), (0,))],
        [Mapping(a2, SignedPredicate(S.NoSign, b2), (1, 0)), Mapping(b2, SignedPredicate(S.NoSign, c2), (1, 1))],
        [Mapping(a2, SignedPredicate(S.Negation, b2), (0, 1)), Mapping(b2, SignedPredicate(S.NoSign, c1), (0,))],
        [Mapping(a2, SignedPredicate(S.DoubleNegation, b2), (0, 1)), Mapping(b2, SignedPredicate(S.NoSign, c1), (1,))],
        [Mapping(a2, SignedPredicate(S.NoSign, b2), (0, 0)), Mapping(b2, SignedPredicate(S.Negation, c1), (1,))],
        [Mapping(d1, SignedPredicate(S.NoSign, a2), (0, 0)), Mapping(a2, SignedPredicate(S.NoSign, b2), (1, 0)), Mapping(b2, SignedPredicate(S.NoSign, c1), (1,))],
    ]


@mirror("transitive_closure")
def _transitive_closure(model, extra):
    sets = []
    try:
        sets.append(build(model.get("a") or []))
    except Exception:  # pylint: disable=broad-except
        pass
    sets += _adversarial_mapping_sets()
    for ms in sets:
        r = _closure_check(ms)
        if r is not None:
            return {"confirmed": True, **r}
    return {"confirmed": False, "sets_tried": len(sets)}


# ---------------------------------------------------------------------------------------------
# bounded native stand-ins (used only when a changed function left the verifier's reach; labelled bounded)
@mirror("corpus")
def _corpus(model, extra):
    from native.corpus import CORPUS
    from native.witnesses import models, optimise

    trait = extra["trait"]
    base = [] if trait == "none" else [trait]
    selections = [base]
    if extra.get("tier") == "thorough":
        # deeper: the trait together with each other trait, the default selection and all traits
        selections += [sorted(set(base + [t])) for t in TRAITS if t not in base] + [[t for t in TRAITS if t != "duplication"], list(TRAITS)]
    problems = []
    n = 0
    for prg, factsets in [(p_, f_) for p_, f_ in CORPUS[trait]] * 1:
      for traits in selections:
        try:
            new = optimise(prg, traits, limit_s=30)
        except Exception as e:  # pylint: disable=broad-except
            problems.append({"program": prg, "traits": traits, "exception": repr(e)})
            if type(e).__name__ == "DidNotReturn":
                break  # do not wait for every other program as well
            continue
        for facts in factsets:
            n += 1
            a = models(prg, facts)
            try:
                b = models(new, facts)
            except RuntimeError as e:
                problems.append({"program": prg, "facts": facts, "optimised": new, "error": "the result does not ground: " + repr(e)})
                break
            if a != b:
                problems.append({"program": prg, "traits": traits, "facts": facts, "optimised": new, "source_answer_sets": len(a), "result_answer_sets": len(b), "first_difference": [x for x in a if x not in b][:1] + [x for x in b if x not in a][:1]})
                break
    return {"confirmed": bool(problems), "bounded": True, "bound": f"{n} (program, instance, trait selection) triples of native/corpus.py[{trait}] ({len(selections)} trait selections)", "problems": problems[:2]}


@mirror("verify_enable_bounded")
def _verify_enable_bounded(model, extra):
    import itertools
    from argparse import ArgumentTypeError

    from ngo.utils.parser import get_parser

    parser = get_parser()
    n = 0
    lists = [list(t) for r in (1, 2, 3) for t in itertools.product(TOKENS, repeat=r)]
    lists += [list(t) for t in itertools.product(["default", "duplication", "cleanup", "all"], repeat=4)]
    for toks in lists:
        n += 1
        want_error = "none" in toks and len(toks) > 1
        try:
            args = parser.parse_args(["--enable"] + toks)
        except ArgumentTypeError:
            if not want_error:
                return {"confirmed": True, "bounded": True, "argv": toks, "got": "ArgumentTypeError", "want": sorted(_expected_enable(toks))}
            continue
        except SystemExit:
            return {"confirmed": True, "bounded": True, "argv": toks, "got": "SystemExit"}
        got = {k for k in TRAITS if k in args.enable}
        if want_error or got != _expected_enable(toks):
            return {"confirmed": True, "bounded": True, "argv": toks, "got": sorted(got), "want": "error" if want_error else sorted(_expected_enable(toks))}
    return {"confirmed": False, "bounded": True, "bound": f"all {n} token lists up to length 3 (+ length 4 over default/duplication/cleanup/all)"}


@mirror("optimize_gating_bounded")
def _optimize_gating_bounded(model, extra):
    import itertools

    n = 0
    for bits in itertools.product((False, True), repeat=9):
        n += 1
        mdl = {"flag_" + fl: b for (fl, _c, _k), b in zip(PASS_TABLE, bits)}
        r = _optimize_gating(mdl, extra)
        if r.get("confirmed"):
            return dict(r, bounded=True)
    return {"confirmed": False, "bounded": True, "bound": f"all {n} flag combinations, two rounds"}


# ---------------------------------------------------------------------------------------------
# C05 normal-form helpers
@mirror("count_to_sum")
def _count_to_sum(model, extra):
    from ngo.normalize import _convert_count_to_sum

    agg = build(model["agg"])
    new = _convert_count_to_sum(agg)
    problems = []
    if new.function != A.AggregateFunction.SumPlus:
        problems.append("function is not #sum+")
    if new.left_guard != agg.left_guard or new.right_guard != agg.right_guard:
        problems.append("guards changed")
    if len(new.elements) != len(agg.elements):
        problems.append("number of elements changed")
    else:
        for o, n in zip(agg.elements, new.elements):
            if list(n.condition) != list(o.condition):
                problems.append(f"condition changed: {o} -> {n}")
            if len(n.terms) != len(o.terms) + 1 or str(n.terms[0]) != "1" or list(n.terms)[1:] != list(o.terms):
                problems.append(f"tuple is not 1 followed by the old tuple: {o} -> {n}")
    return {"confirmed": bool(problems), "old": str(agg), "new": str(new), "problems": problems[:3]}


@mirror("equality")
def _equality(model, extra):
    import itertools

    from ngo.normalize import _equality as eq
    from ngo.utils.ast import collect_ast

    lit = build(model["lit"])
    r = eq(lit)
    if r is None:
        return {"confirmed": False, "result": None}
    var, rest = r
    problems = []
    if var.ast_type != A.ASTType.Variable or var.name == "_":
        problems.append("first component is not a named variable")
    if not (lit.ast_type == A.ASTType.Literal and lit.atom.ast_type == A.ASTType.Comparison and len(lit.atom.guards) == 1):
        problems.append("literal is not a binary comparison")
    else:
        g = lit.atom.guards[0]
        if {str(var), str(rest)} != {str(lit.atom.term), str(g.term)}:
            problems.append("components are not the two sides of the comparison")
        if collect_ast(lit, "Pool") or collect_ast(lit, "Interval"):
            problems.append("pool / interval inside an inlined equality")
        names = sorted({str(lit.atom.term), str(g.term)})
        vals = [clingo.Number(1), clingo.Number(2), clingo.Function("a", [])]
        for vs in itertools.product(vals, repeat=len(names)):
            asg = dict(zip(names, vs))
            holds = sym_cmp(A.ComparisonOperator(g.comparison), asg[str(lit.atom.term)], asg[str(g.term)])
            if lit.sign == A.Sign.Negation:
                holds = not holds
            if holds != (asg[str(var)] == asg[str(rest)]):
                problems.append(f"{lit} does not mean {var} = {rest} (assignment {dict((k, str(v)) for k, v in asg.items())})")
                break
    return {"confirmed": bool(problems), "literal": str(lit), "result": [str(var), str(rest)], "problems": problems[:3]}


# ---------------------------------------------------------------------------------------------
# C18: independent generic traversal (every SymbolicAtom with a Function symbol, any child field) as referee
def _occ(node, acc, head_pos=None):
    """collect (name, arity, sign_context) of every symbolic atom reachable from node through any child"""
    if isinstance(node, A.AST):
        if node.ast_type == A.ASTType.SymbolicAtom and node.symbol.ast_type == A.ASTType.Function:
            acc.add((node.symbol.name, len(node.symbol.arguments)))
        for k in node.child_keys:
            v = getattr(node, k)
            if isinstance(v, A.AST):
                _occ(v, acc)
            elif v is not None and not isinstance(v, (str, int)):
                try:
                    for x in v:
                        _occ(x, acc)
                except TypeError:
                    pass


def _pos_heads(stm):
    out = set()
    if stm.ast_type != A.ASTType.Rule:
        return out
    h = stm.head

    def lit(l):
        if l.ast_type == A.ASTType.Literal and l.sign == A.Sign.NoSign and l.atom.ast_type == A.ASTType.SymbolicAtom and l.atom.symbol.ast_type == A.ASTType.Function:
            out.add((l.atom.symbol.name, len(l.atom.symbol.arguments)))

    if h.ast_type == A.ASTType.Literal:
        lit(h)
    elif h.ast_type in (A.ASTType.Aggregate, A.ASTType.Disjunction):
        for e in h.elements:
            lit(e.literal)
    elif h.ast_type == A.ASTType.HeadAggregate:
        for e in h.elements:
            lit(e.condition.literal)
    return out


DETECT_PROGRAMS = [
    "reach(X) :- start(X). reach(Y) :- reach(X), edge(X,Y). wall(X,Y) :- wall(Y,X). :- wall(X,Y), reach(X). sym(X,Y) :- sym(Y,X). sym(X,Y) :- base(X,Y). #show reach/1.",
    "{a(X) : b(X)} :- c. a(X) :- a(X), d(X). e(X) ; f(X) :- g(X). f(X) :- f(X). #sum{1,X : h(X) : i(X)} <= 1 :- j. h(X) :- h(X), k. #show t(X) : h(X), not f(X).",
    "a(X) :- b(X), not c(X). {d(X) : e(X)} :- f. g(X) ; h(X) :- i(X). #sum{1,X : j(X) : k(X)} <= 2 :- l. :- m(X), X = #sum{Y : n(X,Y)}. #minimize{X : o(X)}. :~ p(X). [X] #show q/1. #show t(X) : r(X), not s(X). #show u/2.",
    "a :- a. b :- c, b. d(X) :- e(X), 1 {f(X,Y) : g(Y)}. h :- not not i, j : k. -l(X) :- m(X). n :- -l(1). #show n/0.",
    "a(X) :- b(X), X = #max{Y : c(Y) ; Z : d(Z), not e(Z)}. {f(X)} :- a(X). :- f(X), g(X). #show f/1. #show h : f(_).",
]


@mirror("auto_detect_bounded")
def _auto_detect_bounded(model, extra):
    from clingo.ast import parse_string

    from ngo.utils.globals import auto_detect_input, auto_detect_output

    problems = []
    for text in DETECT_PROGRAMS:
        prg = []
        parse_string(text, prg.append)
        occ_all, heads = set(), set()
        derived_not_used = set()
        for stm in prg:
            if stm.ast_type in (A.ASTType.Rule, A.ASTType.Minimize):
                o = set()
                _occ(stm, o)
                occ_all |= o
                ph = _pos_heads(stm)
                heads |= ph
                body = set()
                for b in stm.body:
                    _occ(b, body)
                derived_not_used |= {p for p in ph if p not in body}
        got = {(p.name, p.arity) for p in auto_detect_input(prg)}
        if not (occ_all - heads) <= got:
            problems.append({"program": text, "missing_input_predicates": sorted(occ_all - heads - got)})
        if got & derived_not_used:
            problems.append({"program": text, "derived_predicates_reported": sorted(got & derived_not_used)})
        shown = set()
        for stm in prg:
            if stm.ast_type == A.ASTType.ShowSignature and stm.name != "":
                shown.add((stm.name, stm.arity))
            elif stm.ast_type == A.ASTType.ShowTerm:
                for b in stm.body:
                    _occ(b, shown)
        out = auto_detect_output(prg)
        gout = {(p.name, p.arity) for p in out}
        if gout != shown:
            problems.append({"program": text, "auto_detect_output": sorted(gout), "shown": sorted(shown)})
        if list(out) != sorted(set(out)):
            problems.append({"program": text, "why": "output list not sorted / not duplicate free"})
    return {"confirmed": bool(problems), "bounded": True, "bound": f"{len(DETECT_PROGRAMS)} programs (no pools, no theory atoms)", "problems": problems[:2]}


@mirror("auto_detect_input")
def _auto_detect_input(model, extra):
    return _auto_detect_bounded(model, extra)


@mirror("auto_detect_output")
def _auto_detect_output(model, extra):
    return _auto_detect_bounded(model, extra)


EXTRA_NO_EXCEPTION = [
    "{ a; 1 < 2 }. b ; 2 > 1 :- a. #show a/0.",
    "{p(X,W) : w(W)} 1 :- d(X). d(1). w(1..3). #minimize{ W,x : p(1,W) }. #show p/2.",
    ":- #sum{ 1,X,Y : p(1,X), p(1,Y), X != Y } > 2. {p(1,1..4)}. #show p/2.",
    ":- #sum{ : p(X)} > 1. {p(1..2)}. #show p/1.",
    "p(1..3). { q(X) : p(X) } #sup. #inf { r(X) : p(X) } 1. :- q(1), q(2). #show q/1.",
    "{p(1..2)}. a :- #min{X : p(X)}. b :- #sum{1,X : p(X)}. :- #count{X : p(X)}. #show a/0.",
    "q(1..2). {p(G,1..3)} 1 :- q(G). a(S) :- S = #sum{ X,x : p(_,X) }. #show a/1.",
    "{b(1..2)}. #sum{1,X : a(X) : b(X)} <= 1. #count{X : c(X) : b(X)} >= 1. #show a/1.",
    "#external e(1). {p}. a :- e(_), p. #show a/0. #const n = 3. #program base. &diff{a - b} <= n :- p.",
    "a(1;2). b(X) :- a(X), X = 1..3. c :- a(X), #sup > X > #inf. d(\"s\") :- c. #show d/1.",
    "{a(1..3)}. :- 2 #sum{X : a(X)} 4, not #count{X : a(X)} = 2. b :- 1 <= #max{X : a(X)} <= 2, 0 < #min{X : a(X)}.",
]


@mirror("generated")
def _generated(model, extra):
    """bounded stand-in: schema-generated programs of native/gen.py for one trait (cross products of operators, signs,
    aggregate functions, tuple shapes ...), optimised with that trait only and compared with clingo on answer sets and
    costs.  A source program clingo rejects is skipped (not a test)."""
    from native.gen import sample
    from native.witnesses import models, optimise

    trait = extra["trait"]
    n = int(extra.get("n", 0))  # 0: every generated program (a few hundred per trait, 10-25 s)
    progs = sample(trait, n, int(extra.get("seed", 0)))
    problems, done, skipped = [], 0, 0
    for entry in progs:
        prg, factsets = entry[0], entry[1]
        inputs = entry[2] if len(entry) > 2 else "auto"  # explicit input declaration (else auto-detected)
        try:
            src = [models(prg, f) for f in factsets]
        except RuntimeError:
            skipped += 1
            continue
        try:
            new = optimise(prg, [] if trait == "none" else [trait], inputs=inputs, limit_s=30)
        except Exception as e:  # pylint: disable=broad-except
            problems.append({"program": prg, "traits": [trait], "exception": repr(e)})
            if type(e).__name__ == "DidNotReturn":
                break  # do not wait for every other program as well
            continue
        for f, a in zip(factsets, src):
            done += 1
            try:
                b = models(new, f)
            except RuntimeError as e:
                problems.append({"program": prg, "facts": f, "optimised": new, "error": "the result does not ground: " + repr(e)})
                break
            if a != b:
                problems.append({"program": prg, "traits": [trait], "facts": f, "optimised": new, "source_answer_sets": len(a), "result_answer_sets": len(b), "first_difference": [x for x in a if x not in b][:1] + [x for x in b if x not in a][:1]})
                break
    return {"confirmed": bool(problems), "bounded": True, "bound": f"{done} (program, instance) pairs from {len(progs)} schema-generated programs of native/gen.py[{trait}] ({skipped} rejected by clingo and skipped)", "problems": problems[:2]}


@mirror("corpus_no_exception")
def _corpus_no_exception(model, extra):
    """bounded stand-in for C03: optimize returns on every corpus program under each single trait, `default` and `all`"""
    from native.corpus import CORPUS
    from native.mirrors import TRAITS as _T
    from native.witnesses import optimise

    programs = [p for progs in CORPUS.values() for p, _f in progs] + EXTRA_NO_EXCEPTION
    n = 0
    for prg in programs:
        for traits in [[t] for t in _T] + [[t for t in _T if t != "duplication"], list(_T), []]:
            n += 1
            try:
                optimise(prg, traits)
            except Exception as e:  # pylint: disable=broad-except
                import traceback

                return {"confirmed": True, "bounded": True, "program": prg, "traits": traits, "exception": repr(e), "where": traceback.format_exc().strip().splitlines()[-3:]}
    return {"confirmed": False, "bounded": True, "bound": f"{n} (program, trait selection) pairs"}


@mirror("generated_no_exception")
def _generated_no_exception(model, extra):
    """bounded stand-in for C03: optimize returns (raises nothing, within 60 s) on a fixed sample of the schema-generated
    programs of every trait (20 per trait, 120 in the thorough tier), under that trait alone, under the default
    selection and under all traits"""
    from native.gen import GENERATORS, sample
    from native.mirrors import TRAITS as _T
    from native.witnesses import optimise

    per = int(extra.get("n", 20)) if extra.get("tier") != "thorough" else int(extra.get("n_thorough", 120))
    n = 0
    for trait in GENERATORS:
        for entry in sample(trait, per, int(extra.get("seed", 0))):
            prg = entry[0]
            for traits in ([trait], [t for t in _T if t != "duplication"], list(_T)):
                n += 1
                try:
                    optimise(prg, traits, limit_s=60)
                except RuntimeError as e:
                    if "syntax error" in str(e) or "parsing failed" in str(e):
                        continue  # not a valid program: not a test
                    return {"confirmed": True, "bounded": True, "program": prg, "traits": traits, "exception": repr(e)}
                except Exception as e:  # pylint: disable=broad-except
                    import traceback

                    return {"confirmed": True, "bounded": True, "program": prg, "traits": traits, "exception": repr(e), "where": traceback.format_exc().strip().splitlines()[-3:]}
    return {"confirmed": False, "bounded": True, "bound": f"{n} (schema-generated program, trait selection) pairs"}


@mirror("domain_predicate_names")
def _domain_predicate_names(model, extra):
    """black-box: request sequences against freshness / memoisation of DomainPredicates' name factory"""
    import itertools

    from ngo.dependency import DomainPredicates
    from ngo.utils.ast import Predicate
    from ngo.utils.globals import UniqueNames

    base = {Predicate("__dom_p", 2), Predicate("__dom_p1", 1), Predicate("p", 1), Predicate("p", 2), Predicate("__min_0_0p", 1)}
    reqs = [("__dom_p", 1), ("__dom_p", 2), ("__dom_p", 3), ("__dom_q", 1), ("__min_0_0p", 1), ("__min_0_0p", 2)]
    problems = []
    for seq in itertools.product(reqs, repeat=3):
        un = UniqueNames([], [])
        un.predicates = set(base)
        dp = DomainPredicates(un, [])
        seen = {}
        for name, ar in seq:
            r = dp._predicate(name, ar)  # pylint: disable=protected-access
            if (name, ar) in seen:
                if r != seen[(name, ar)]:
                    problems.append(f"{seq}: request {(name, ar)} answered {seen[(name, ar)]} and then {r}")
                continue
            if r in base or r in seen.values():
                problems.append(f"{seq}: request {(name, ar)} returned {r}, which is already in use")
            if r.arity != ar:
                problems.append(f"{seq}: request {(name, ar)} returned arity {r.arity}")
            seen[(name, ar)] = r
        if problems:
            return {"confirmed": True, "bounded": True, "problems": problems[:3]}
    return {"confirmed": False, "bounded": True, "bound": f"all request sequences of length 3 over {reqs}"}


@mirror("valid_output_bounded")
def _valid_output_bounded(model, extra):
    """bounded stand-in for C04: for every corpus program and trait selection the result (a) can be added statement by
    statement to a ProgramBuilder and grounds, (b) its printed text parses back to the same text, (c) both load paths
    give the same number of answer sets"""
    from clingo import Control
    from clingo.ast import ProgramBuilder, parse_string

    from native.corpus import CORPUS
    from native.witnesses import ALL

    from ngo.api import optimize
    from ngo.utils.globals import auto_detect_input, auto_detect_output

    n = 0
    for trait, progs in CORPUS.items():
        for text, factsets in progs:
            prg = []
            parse_string(text, prg.append)
            for traits in ([trait] if trait != "none" else []), [t for t in ALL if t != "duplication"]:
                n += 1
                res = optimize(prg, auto_detect_input(prg), auto_detect_output(prg), **{t: (t in traits) for t in ALL})
                out = "\n".join(map(str, res))
                back = []
                try:
                    parse_string(out, back.append)
                except RuntimeError as e:
                    return {"confirmed": True, "bounded": True, "program": text, "traits": traits, "why": "printed result does not parse", "result": out[-600:], "error": repr(e)}
                if [str(s) for s in back] != [str(s) for s in res] and [str(s) for s in back[1:]] != [str(s) for s in res] and [str(s) for s in back] != [str(s) for s in res[1:]]:
                    diff = [(str(a), str(b)) for a, b in zip(back[-len(res):], res) if str(a) != str(b)][:2]
                    if diff:
                        return {"confirmed": True, "bounded": True, "program": text, "traits": traits, "why": "printed form is not a fixpoint of parse/print", "difference": diff}
                counts = []
                for mode in ("ast", "text"):
                    ctl = Control(["0", "--warn=none"])
                    try:
                        if mode == "ast":
                            with ProgramBuilder(ctl) as b:
                                for s in res:
                                    b.add(s)
                        else:
                            ctl.add("base", [], out)
                        ctl.add("base", [], factsets[0])
                        ctl.ground([("base", [])])
                    except RuntimeError as e:
                        if any(k.get("ungroundable") for k in ()):
                            pass
                        return {"confirmed": True, "bounded": True, "program": text, "traits": traits, "why": f"result does not load/ground through the {mode} path", "result": out[-600:], "error": repr(e)}
                    k = [0]
                    ctl.solve(on_model=lambda m, k=k: k.__setitem__(0, k[0] + 1))
                    counts.append(k[0])
                if counts[0] != counts[1]:
                    return {"confirmed": True, "bounded": True, "program": text, "traits": traits, "why": "AST path and text path give different numbers of answer sets", "counts": counts}
    return {"confirmed": False, "bounded": True, "bound": f"{n} (program, trait selection) pairs of native/corpus.py"}


@mirror("lexical_site")
def _lexical_site(model, extra):
    """replay of a lexical finding: build the node with the offending constant name, print it, parse it back"""
    import re as _re

    from clingo.ast import parse_string

    out = []
    for site in extra.get("sites", []):
        m_ = _re.search(r"(Variable|Function)\(\.\.\., '([^']*)'", site)
        if not m_:
            continue
        kind, name = m_.group(1), m_.group(2)
        node = A.Variable(LOC, name) if kind == "Variable" else A.Function(LOC, name, [A.SymbolicTerm(LOC, clingo.Number(1))], False)
        text = f"p({node})."
        back = []
        try:
            parse_string(text, back.append)
            arg = back[-1].head.atom.symbol.arguments[0]
            same = arg.ast_type == node.ast_type and str(arg) == str(node)
        except RuntimeError as e:
            same = False
            arg = repr(e)
        if not same:
            out.append({"site": site, "printed": text, "read_back_as": str(getattr(arg, "ast_type", arg))})
    return {"confirmed": bool(out), "sites": out[:3]}


@mirror("predicate_list_bounded")
def _predicate_list_bounded(model, extra):
    from argparse import ArgumentTypeError

    from ngo.utils.ast import Predicate
    from ngo.utils.parser import get_parser

    cases = {
        "auto": "auto",
        "": [],
        "a/1": [Predicate("a", 1)],
        "a/1,b/2": [Predicate("a", 1), Predicate("b", 2)],
        "zero/0, another/14": [Predicate("zero", 0), Predicate("another", 14)],
        " a /3": [Predicate("a", 3)],
        "a/1,b/2,c/0": [Predicate("a", 1), Predicate("b", 2), Predicate("c", 0)],
        "a": ArgumentTypeError,
        "a/1/2": ArgumentTypeError,
        "a/x": ArgumentTypeError,
        "a/1,b": ArgumentTypeError,
        "a/1,,b/2": ArgumentTypeError,
    }
    problems = []
    for opt in ("--input-predicates", "--output-predicates"):
        for text, want in cases.items():
            try:
                got = getattr(get_parser().parse_args([opt, text]), opt[2:].replace("-", "_"))
            except ArgumentTypeError:
                got = ArgumentTypeError
            except SystemExit:
                got = SystemExit
            if got != want:
                problems.append({"option": opt, "value": text, "got": str(got), "want": str(want)})
        got = getattr(get_parser().parse_args([opt]), opt[2:].replace("-", "_"))
        if got != []:
            problems.append({"option": opt + " (no value)", "got": str(got), "want": "[]"})
        got = getattr(get_parser().parse_args([]), opt[2:].replace("-", "_"))
        if got != "auto":
            problems.append({"option": opt + " (absent)", "got": str(got), "want": "auto"})
    return {"confirmed": bool(problems), "bounded": True, "bound": f"{2 * (len(cases) + 2)} option values", "problems": problems[:3]}


@mirror("comparison_list")
def _comparison_list(model, extra):
    from ngo.utils.ast import comparison2comparisonlist

    cmpn = build(model["comparison"])
    got = comparison2comparisonlist(cmpn)
    want = []
    lhs = cmpn.term
    for g in cmpn.guards:
        want.append((lhs, A.ComparisonOperator(g.comparison), g.term))
        lhs = g.term
    same = len(got) == len(want) and all(str(a[0]) == str(b[0]) and A.ComparisonOperator(a[1]) == b[1] and str(a[2]) == str(b[2]) for a, b in zip(got, want))
    return {"confirmed": not same, "comparison": str(cmpn), "got": [(str(a), str(b), str(c)) for a, b, c in got]}


@mirror("chain_split")
def _chain_split(model, extra):
    from native.witnesses import models, optimise

    sign = SIGNSTR[model.get("sign", "NoSign")]
    prg = f"p(1..6). q(X) :- p(X), {sign}2 < X < 5. r(X) :- p(X), {sign}X = X. #show q/1. #show r/1."
    new = optimise(prg, [])
    a, b = models(prg), models(new)
    return {"confirmed": a != b, "program": prg, "optimised": new}


@mirror("exline_term")
def _exline_term(model, extra):
    from clingo.ast import parse_string

    from ngo.normalize import exline_term
    from ngo.utils.globals import UniqueVariables

    problems = []
    stms = []
    parse_string("a(X,AUX) :- b(X+1,-X,|X|,f(X),3,X..4,(X;1)).", stms.append)
    rule = stms[-1]
    for t in rule.body[0].atom.symbol.arguments:
        uv = UniqueVariables(rule)
        new, lits = exline_term(t, uv)
        arith = t.ast_type in (A.ASTType.BinaryOperation, A.ASTType.UnaryOperation)
        if not arith:
            if new != t or lits:
                problems.append(f"{t}: non-arithmetic term changed to {new} with {list(map(str, lits))}")
            continue
        ok = new.ast_type == A.ASTType.Variable and str(new) not in ("X", "AUX") and len(lits) == 1 and str(lits[0]) == f"{new} = {t}"
        if not ok:
            problems.append(f"{t}: got {new} with {list(map(str, lits))}")
    return {"confirmed": bool(problems), "problems": problems[:3]}


# ---------------------------------------------------------------------------------------------
# C09
@mirror("interface_positions")
def _interface_positions(model, extra):
    from clingo.ast import parse_string

    from ngo.unused import UnusedTranslator
    from ngo.utils.ast import Predicate

    problems = []
    for text, inp, outp in (
        ("#show a/2. #project b/3. c(X) :- d(X,_), e(_,X). #show c/1.", [Predicate("x", 2), Predicate("d", 2)], [Predicate("y", 3), Predicate("e", 2)]),
        ("{a(X,Y) : d(X,Y)}. b(X) :- a(X,_). #show b/1.", [Predicate("d", 2)], [Predicate("a", 2)]),
        ("a(1,2,3). #show a/3. #project a/3.", [], [Predicate("zz", 1)]),
    ):
        prg = []
        parse_string(text, prg.append)
        ut = UnusedTranslator(prg, inp, outp)
        ut.analyze_usage(prg)
        want = list(inp) + list(outp)
        for stm in prg:
            if stm.ast_type in (A.ASTType.ShowSignature, A.ASTType.ProjectSignature):
                want.append(Predicate(stm.name, stm.arity))
        for p in want:
            if p not in ut.used or set(range(p.arity)) - set(ut.used_positions[p]):
                problems.append({"program": text, "predicate": str(p), "in_used": p in ut.used, "positions": sorted(ut.used_positions[p])})
    return {"confirmed": bool(problems), "problems": problems[:3]}


@mirror("remove_unused")
def _remove_unused(model, extra):
    from clingo.ast import parse_string

    from ngo.unused import UnusedTranslator
    from ngo.utils.ast import Predicate

    problems = []
    text = "not a :- b. not not c :- b. a :- b. d(X) :- e(X). {f} :- b. g ; h :- b. #sum{1 : i} <= 1 :- b. :- b. #show d/1. k(1)."
    prg = []
    parse_string(text, prg.append)
    for used in (set(), {Predicate("d", 1)}, {Predicate("a", 0), Predicate("k", 1)}):
        ut = UnusedTranslator(prg, [], [])
        ut.used = set(used)
        res = ut.remove_unused(prg)
        for stm in prg:
            if stm in res:
                continue
            h = stm.head if stm.ast_type == A.ASTType.Rule else None
            ok = (
                h is not None
                and h.ast_type == A.ASTType.Literal
                and h.sign == A.Sign.NoSign
                and h.atom.ast_type == A.ASTType.SymbolicAtom
                and h.atom.symbol.ast_type == A.ASTType.Function
                and Predicate(h.atom.symbol.name, len(h.atom.symbol.arguments)) not in used
            )
            if not ok:
                problems.append({"dropped": str(stm), "used": sorted(map(str, used))})
        for stm in res:
            if stm not in prg:
                problems.append({"invented": str(stm)})
    return {"confirmed": bool(problems), "problems": problems[:3]}


# ---------------------------------------------------------------------------------------------
# C14: what Goebner.to_sympy hands to the algebra means what the literal means (over sample integers)
@mirror("to_sympy")
def _to_sympy(model, extra):
    import itertools

    import sympy
    from clingo.ast import parse_string

    from ngo.math_simplification import Goebner

    problems = []
    ops = ["=", "!=", "<", "<=", ">", ">="]
    texts = [f"{s}X {o} Y" for s in ("", "not ", "not not ") for o in ops]
    texts += [f"{s}X {o} #sum{{V : p(V)}}" for s in ("", "not ", "not not ") for o in ops]
    texts += [f"{s}X {o1} #sum{{V : p(V)}} {o2} Y" for s in ("", "not ", "not not ") for o1 in ops for o2 in ("<", ">=", "!=")]
    pyop = {"=": lambda a, b: a == b, "!=": lambda a, b: a != b, "<": lambda a, b: a < b, "<=": lambda a, b: a <= b, ">": lambda a, b: a > b, ">=": lambda a, b: a >= b}
    for text in texts:
        stms = []
        parse_string(f":- {text}.", stms.append)
        lit = stms[-1].body[0]
        gb = Goebner()
        rels = gb.to_sympy(lit)
        neg2 = text.startswith("not ") and not text.startswith("not not ")
        two = text.count("#sum") == 1 and "}" in text and text.split("}")[1].strip() != ""
        if rels is None:
            continue
        syms = {str(s): s for e in rels for s in e.free_symbols}
        aggs = [s for s in gb._sym2agg]  # pylint: disable=protected-access
        for x, y, a in itertools.product((-1, 0, 2), repeat=3):
            # truth of the literal with aggregate value a
            body = text[4:] if neg2 else (text[8:] if text.startswith("not not ") else text)
            if "#sum" in body:
                left, rest = body.split("#sum", 1)
                lo = left.strip().split()
                truth = pyop[lo[1]](x, a)
                tail = rest.split("}", 1)[1].strip().split()
                if tail:
                    truth = truth and pyop[tail[0]](a, y)
            else:
                parts = body.split()
                truth = pyop[parts[1]](x, y)
            if neg2:
                truth = not truth
            # truth of the relations: every expr must be solvable to 0 with its slack satisfying its operator
            sat = True
            for e in rels:
                subs = {}
                for name, s in syms.items():
                    if name == "X":
                        subs[s] = x
                    elif name == "Y":
                        subs[s] = y
                    elif s in aggs:
                        subs[s] = a
                val = e.subs(subs)
                slack = [s for s in val.free_symbols if s in gb.help_neq_vars]
                if not slack:
                    sat = sat and (val == 0)
                else:
                    sol = sympy.solve(val, slack[0])
                    opn = NAME_OF[A.ComparisonOperator(gb.help_neq_vars[slack[0]])]
                    sat = sat and bool(sol) and PYOP[opn](sol[0], 0)
            if sat != truth:
                problems.append({"literal": text, "X": x, "Y": y, "aggregate_value": a, "literal_holds": truth, "relations_hold": sat, "relations": [str(e) for e in rels]})
                break
        if len(problems) >= 2:
            break
    return {"confirmed": bool(problems), "bounded": True, "problems": problems[:2]}
