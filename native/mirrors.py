"""Executable mirrors of postconditions, evaluated natively on the real code with the solver's counter-model.
Each mirror returns {"confirmed": True|False, ...}: True = the real function violates the postcondition on
this input.  Runs under /venv/bin/python with the working tree of /repo on sys.path."""
from __future__ import annotations

import clingo
import clingo.ast as A
from clingo.ast import ComparisonOperator as CO

from native.build import build

OPS = {n: getattr(CO, n) for n in ("Equal", "NotEqual", "LessThan", "LessEqual", "GreaterThan", "GreaterEqual")}
PYOP = {
    "Equal": lambda a, b: a == b,
    "NotEqual": lambda a, b: a != b,
    "LessThan": lambda a, b: a < b,
    "LessEqual": lambda a, b: a <= b,
    "GreaterThan": lambda a, b: a > b,
    "GreaterEqual": lambda a, b: a >= b,
}
NAME_OF = {v: k for k, v in OPS.items()}
SAMPLE_INTS = [-2, -1, 0, 1, 2, 3]

MIRRORS = {}


def mirror(name):
    def deco(f):
        MIRRORS[name] = f
        return f

    return deco


def run(req):
    return MIRRORS[req["mirror"]](req["model"], req.get("extra") or {})


@mirror("compare")
def _compare(model, extra):
    from ngo.utils.ast import compare

    a, b, op = model["a"], model["b"], model["op"]
    got = compare(a, OPS[op], b)
    want = PYOP[op](a, b)
    return {"confirmed": bool(got) != bool(want), "call": f"compare({a}, {op}, {b})", "got": got, "want": want}


@mirror("negate_comparison")
def _negate(model, extra):
    from ngo.utils.ast import negate_comparison

    op = model["op"]
    got = NAME_OF[negate_comparison(OPS[op])]
    bad = [(a, b) for a in SAMPLE_INTS for b in SAMPLE_INTS if (not PYOP[op](a, b)) != PYOP[got](a, b)]
    return {"confirmed": bool(bad), "call": f"negate_comparison({op})", "got": got, "witness_pairs": bad[:3]}


@mirror("rhs2lhs_comparison")
def _flip(model, extra):
    from ngo.utils.ast import rhs2lhs_comparison

    op = model["op"]
    got = NAME_OF[rhs2lhs_comparison(OPS[op])]
    bad = [(a, b) for a in SAMPLE_INTS for b in SAMPLE_INTS if PYOP[op](a, b) != PYOP[got](b, a)]
    return {"confirmed": bool(bad), "call": f"rhs2lhs_comparison({op})", "got": got, "witness_pairs": bad[:3]}
