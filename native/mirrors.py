"""Executable mirrors of postconditions, evaluated natively on the real code with the solver's counter-model.
Each mirror returns {"confirmed": True|False, ...}: True = the real function violates the postcondition on
this input.  Runs under /venv/bin/python with the working tree of /repo on sys.path."""
from __future__ import annotations

import clingo
import clingo.ast as A
from clingo.ast import ComparisonOperator as CO

from native.build import LOC, build

OPS = {n: getattr(CO, n) for n in ("Equal", "NotEqual", "LessThan", "LessEqual", "GreaterThan", "GreaterEqual")}
PYOP = {
    "Equal": lambda a, b: a == b,
    "NotEqual": lambda a, b: a != b,
    "LessThan": lambda a, b: a < b,
    "LessEqual": lambda a, b: a <= b,
    "GreaterThan": lambda a, b: a > b,
    "GreaterEqual": lambda a, b: a >= b,
}
NAME_OF = {v: k for k, v in OPS.items()}
SAMPLE_INTS = [-2, -1, 0, 1, 2, 3]

MIRRORS = {}


def mirror(name):
    def deco(f):
        MIRRORS[name] = f
        return f

    return deco


def run(req):
    return MIRRORS[req["mirror"]](req["model"], req.get("extra") or {})


@mirror("compare")
def _compare(model, extra):
    from ngo.utils.ast import compare

    a, b, op = model["a"], model["b"], model["op"]
    got = compare(a, OPS[op], b)
    want = PYOP[op](a, b)
    return {"confirmed": bool(got) != bool(want), "call": f"compare({a}, {op}, {b})", "got": got, "want": want}


@mirror("negate_comparison")
def _negate(model, extra):
    from ngo.utils.ast import negate_comparison

    op = model["op"]
    got = NAME_OF[negate_comparison(OPS[op])]
    bad = [(a, b) for a in SAMPLE_INTS for b in SAMPLE_INTS if (not PYOP[op](a, b)) != PYOP[got](a, b)]
    return {"confirmed": bool(bad), "call": f"negate_comparison({op})", "got": got, "witness_pairs": bad[:3]}


@mirror("rhs2lhs_comparison")
def _flip(model, extra):
    from ngo.utils.ast import rhs2lhs_comparison

    op = model["op"]
    got = NAME_OF[rhs2lhs_comparison(OPS[op])]
    bad = [(a, b) for a in SAMPLE_INTS for b in SAMPLE_INTS if PYOP[op](a, b) != PYOP[got](b, a)]
    return {"confirmed": bool(bad), "call": f"rhs2lhs_comparison({op})", "got": got, "witness_pairs": bad[:3]}


# ---------------------------------------------------------------------------------------------
# C05 guards
SAMPLE_SYMS = [clingo.Infimum, clingo.Number(-1), clingo.Number(0), clingo.Number(1), clingo.Function("a", []), clingo.String("s"), clingo.Supremum]


def sym_cmp(op, a, b):
    return PYOP[NAME_OF[op] if not isinstance(op, str) else op](a, b)


def term_value(term, assignment):
    if term.ast_type == A.ASTType.SymbolicTerm:
        return term.symbol
    return assignment[str(term)]


def guards_hold(agg, v, assignment):
    ok = True
    if agg.left_guard is not None:
        ok = ok and sym_cmp(A.ComparisonOperator(agg.left_guard.comparison), term_value(agg.left_guard.term, assignment), v)
    if agg.right_guard is not None:
        ok = ok and sym_cmp(A.ComparisonOperator(agg.right_guard.comparison), v, term_value(agg.right_guard.term, assignment))
    return ok


@mirror("guards")
def _guards(model, extra):
    import itertools

    from ngo.normalize import remove_unecessary_bounds

    agg = build(model["bodyagg"])
    rule = A.Rule(A.Location(A.Position("<cex>", 1, 1), A.Position("<cex>", 1, 1)), A.Literal(LOC, A.Sign.NoSign, A.BooleanConstant(False)), [A.Literal(LOC, A.Sign.NoSign, agg)])
    new_rule = remove_unecessary_bounds([rule])[0]
    new = new_rule.body[0].atom
    open_terms = sorted({str(g.term) for g in (agg.left_guard, agg.right_guard, new.left_guard, new.right_guard) if g is not None and g.term.ast_type != A.ASTType.SymbolicTerm})
    for vals in itertools.product(SAMPLE_SYMS, repeat=len(open_terms)):
        assignment = dict(zip(open_terms, vals))
        for v in SAMPLE_SYMS:
            if guards_hold(agg, v, assignment) != guards_hold(new, v, assignment):
                return {"confirmed": True, "old": str(agg), "new": str(new), "aggregate_value": str(v), "assignment": {k: str(x) for k, x in assignment.items()}}
    if new.right_guard is not None and new.left_guard is None:
        return {"confirmed": True, "old": str(agg), "new": str(new), "why": "right guard without left guard"}
    if new.function != agg.function or list(new.elements) != list(agg.elements):
        return {"confirmed": True, "old": str(agg), "new": str(new), "why": "function/elements changed"}
    return {"confirmed": False, "old": str(agg), "new": str(new)}


# ---------------------------------------------------------------------------------------------
# AggAnalytics (C12/C13)
def _open_terms(guards):
    out = set()
    for g in guards:
        if g is not None and g.term.ast_type != A.ASTType.SymbolicTerm:
            out.add(str(g.term))
    return sorted(out)


@mirror("agg_analytics")
def _agg_analytics(model, extra):
    import itertools

    from ngo.utils.ast import AggAnalytics

    node = build(model["node"])
    an = AggAnalytics(node)
    for b in an.bounds:
        if b.ast_type != A.ASTType.Guard:
            return {"confirmed": True, "why": "bound is not a Guard", "node": str(node)}
    names = sorted(set(_open_terms([node.left_guard, node.right_guard] + list(an.bounds))) | set(an.equal_variable_bound))
    for vals in itertools.product(SAMPLE_SYMS, repeat=len(names)):
        asg = dict(zip(names, vals))
        for v in SAMPLE_SYMS:
            orig = True
            if node.left_guard is not None:
                orig = orig and sym_cmp(A.ComparisonOperator(node.left_guard.comparison), term_value(node.left_guard.term, asg), v)
            if node.right_guard is not None:
                orig = orig and sym_cmp(A.ComparisonOperator(node.right_guard.comparison), v, term_value(node.right_guard.term, asg))
            ana = all(sym_cmp(A.ComparisonOperator(b.comparison), v, term_value(b.term, asg)) for b in an.bounds) and all(asg[n] == v for n in an.equal_variable_bound)
            if orig != ana:
                return {
                    "confirmed": True,
                    "node": str(node),
                    "bounds": [str(b.comparison) + " " + str(b.term) for b in an.bounds],
                    "equal_variable_bound": an.equal_variable_bound,
                    "aggregate_value": str(v),
                    "assignment": {k: str(x) for k, x in asg.items()},
                    "guards_hold": orig,
                    "analysis_holds": ana,
                }
    return {"confirmed": False, "node": str(node)}


@mirror("guaranteed")
def _guaranteed(model, extra):
    from ngo.utils.ast import AggAnalytics

    bounds = build(model["bounds"])
    number = model["number"]
    an = AggAnalytics.__new__(AggAnalytics)
    an.bounds = bounds
    an.equal_variable_bound = []
    fname = extra["fname"]
    res = getattr(an, fname)(number)
    if not res:
        return {"confirmed": False, "result": res}
    open_terms = _open_terms(bounds)
    import itertools

    cands = SAMPLE_SYMS + [clingo.Number(number + d) for d in (-2, -1, 0, 1, 2)]
    for vals in itertools.product(SAMPLE_SYMS, repeat=len(open_terms)):
        asg = dict(zip(open_terms, vals))
        for v in cands:
            if all(sym_cmp(A.ComparisonOperator(b.comparison), v, term_value(b.term, asg)) for b in bounds):
                good = v <= clingo.Number(number) if fname == "guaranteed_leq" else v >= clingo.Number(number)
                if not good:
                    return {"confirmed": True, "call": f"{fname}({number})", "bounds": [str(b.comparison) + " " + str(b.term) for b in bounds], "aggregate_value": str(v), "result": res}
    return {"confirmed": False, "result": res}
