"""JSON counter-model (pyvc.unit.extract_model) -> real clingo.ast / ngo values"""
from __future__ import annotations

import clingo
import clingo.ast as A

LOC = A.Location(A.Position("<cex>", 1, 1), A.Position("<cex>", 1, 1))
ENUMS = {
    "sign": A.Sign,
    "comparison": A.ComparisonOperator,
    "function": A.AggregateFunction,
}


def sym(d):
    k = d["sym"]
    if k == "Number":
        return clingo.Number(d["number"])
    if k == "Infimum":
        return clingo.Infimum
    if k == "Supremum":
        return clingo.Supremum
    if k == "String":
        return clingo.String(d["string"])
    return clingo.Function(ident(d["name"]), [])


def ident(s, var=False):
    """make an abstract string usable as identifier / variable name"""
    s = str(s)
    if var:
        if s == "_" or (s[:1].isupper() and s.replace("_", "a").isalnum()):
            return s
        return "V" + "".join(ch for ch in s if ch.isalnum())
    if s and (s[0].islower() or s[0] == "_") and s.replace("_", "a").isalnum():
        return s
    if s == "":
        return ""
    return "p" + "".join(ch for ch in s if ch.isalnum())


def build(d, ctor_hint=None):
    if d is None:
        return None
    if isinstance(d, list):
        return [build(x) for x in d if x != "..."]
    if isinstance(d, dict) and "ast" in d:
        c = d["ast"]
        fn = getattr(A, c)
        import inspect

        params = list(inspect.signature(fn).parameters)
        args = []
        for p in params:
            if p == "location":
                args.append(LOC)
                continue
            v = d.get(p)
            if p == "sign" and c == "Literal":
                args.append(getattr(A.Sign, v))
            elif p == "comparison":
                args.append(getattr(A.ComparisonOperator, v))
            elif p == "function":
                args.append(getattr(A.AggregateFunction, v))
            elif p == "operator_type" and c == "UnaryOperation":
                args.append(getattr(A.UnaryOperator, v))
            elif p == "operator_type" and c == "BinaryOperation":
                args.append(getattr(A.BinaryOperator, v))
            elif p == "symbol" and c == "SymbolicTerm":
                args.append(sym(v))
            elif p == "name" and c == "Variable":
                args.append(ident(v, var=True))
            elif p == "name" and c in ("Function",):
                args.append(ident(v))
            elif isinstance(v, (dict, list)) or v is None:
                args.append(build(v))
            else:
                args.append(v)
        return fn(*args)
    if isinstance(d, dict) and "rec" in d:
        from ngo.utils.ast import AnnotatedPredicate, Predicate, SignedPredicate

        if d["rec"] == "Predicate":
            return Predicate(ident(d["name"]), d["arity"])
        if d["rec"] == "SignedPredicate":
            return SignedPredicate(getattr(A.Sign, d["sign"]), build(d["pred"]))
        if d["rec"] == "Mapping":
            from ngo.cleanup import Mapping

            return Mapping(build(d["head_pred"]), build(d["body_pred"]), tuple(x for x in d["var_map"] if x != "..."))
        if d["rec"] == "AnnotatedPredicate":
            return AnnotatedPredicate(build(d["pred"]), tuple(x for x in d["annotated_positions"] if x != "..."))
    if isinstance(d, dict) and "set" in d:
        return set(build(x) for x in d["set"])
    return d
