"""helpers shared by contract modules"""
from __future__ import annotations

import z3

from pyvc.aspsem import Sem
from pyvc.values import SV
from pyvc.wf import WF

OPS = ["Equal", "NotEqual", "LessThan", "LessEqual", "GreaterThan", "GreaterEqual"]


def sem_of(ctx) -> Sem:
    if not hasattr(ctx, "_sem"):
        ctx._sem = Sem(ctx.m)
        ctx.sem_axioms.extend(ctx._sem.axioms)
        ctx.assume_note("semantic base pyvc/aspsem.py (total order on Val with #inf/#sup, vnum embedding, tval of SymbolicTerm/Variable)")
    return ctx._sem


def wf_of(ctx) -> WF:
    if not hasattr(ctx, "_wf"):
        ctx._wf = WF(ctx.m)
    return ctx._wf


def returned(results):
    """split call results into (normal [(st, value)], raised [(st, Raised)])"""
    from pyvc.exec import Raised

    ok, bad = [], []
    for s, v in results:
        (bad if isinstance(v, Raised) else ok).append((s, v))
    return ok, bad


def no_raise(ctx, name, results, allowed=(), kind="assert"):
    """obligation: none of the raising paths is feasible (except exception classes in `allowed`)"""
    from pyvc.exec import Raised

    n = 0
    for s, v in results:
        if isinstance(v, Raised) and v.exc not in allowed:
            n += 1
            ctx.oblige(f"{name}#{n}:{v.exc}@{v.info}", s, z3.BoolVal(False), kind=kind)
    return n


def install_collect_ast(ctx):
    """collect_ast(x, K) as an uninterpreted list-valued function per node kind K with the one fact clingo's
    Transformer guarantees: every collected node is a K node.  Returns the dict kind -> z3 function."""
    from pyvc.values import ListObj, SV

    m = ctx.m
    funcs = {}
    LA = ("list", "ast")

    def get(name):
        if name not in funcs:
            f = ctx.ex.ufunc("collect_" + name, [m.AST], m.sort(LA))
            funcs[name] = f
            if name in m.fields:
                x = z3.Const("x!col" + name, m.AST)
                j = z3.Int("j!col" + name)
                ln, at = m.lst_funcs("ast")
                m.global_axioms.append(z3.ForAll([x, j], z3.Implies(z3.And(0 <= j, j < ln(f(x))), m.is_ctor(name, at(f(x), j))), patterns=[at(f(x), j)]))
        return funcs[name]

    def collect_ast(e, s, a, k):
        name = a[1] if len(a) > 1 else k.get("ast_name")
        return [(s, s.alloc(ListObj(sv=SV(get(name)(a[0].term), LA))))]

    ctx.ex.overrides["ngo.utils.ast:collect_ast"] = collect_ast
    ctx.assume_note("collect_ast(x, K) is uninterpreted: a list of K nodes (outermost K nodes of x as clingo's Transformer visits them)")
    return get
