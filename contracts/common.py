"""helpers shared by contract modules"""
from __future__ import annotations

import z3

from pyvc.aspsem import Sem
from pyvc.values import SV
from pyvc.wf import WF

OPS = ["Equal", "NotEqual", "LessThan", "LessEqual", "GreaterThan", "GreaterEqual"]


def sem_of(ctx) -> Sem:
    if not hasattr(ctx, "_sem"):
        ctx._sem = Sem(ctx.m)
        ctx.sem_axioms.extend(ctx._sem.axioms)
        ctx.assume_note("semantic base pyvc/aspsem.py (total order on Val with #inf/#sup, vnum embedding, tval of SymbolicTerm/Variable)")
    return ctx._sem


def wf_of(ctx) -> WF:
    if not hasattr(ctx, "_wf"):
        ctx._wf = WF(ctx.m)
    return ctx._wf


def returned(results):
    """split call results into (normal [(st, value)], raised [(st, Raised)])"""
    from pyvc.exec import Raised

    ok, bad = [], []
    for s, v in results:
        (bad if isinstance(v, Raised) else ok).append((s, v))
    return ok, bad


def no_raise(ctx, name, results, allowed=(), kind="assert"):
    """obligation: none of the raising paths is feasible (except exception classes in `allowed`)"""
    from pyvc.exec import Raised

    n = 0
    for s, v in results:
        if isinstance(v, Raised) and v.exc not in allowed:
            n += 1
            ctx.oblige(f"{name}#{n}:{v.exc}@{v.info}", s, z3.BoolVal(False), kind=kind)
    return n
