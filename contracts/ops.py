"""Operator algebra: the real `negate_comparison`, `rhs2lhs_comparison`, `compare` of ngo.utils.ast
against the meaning of comparison operators over the integers and over the total order on Val."""
from __future__ import annotations

import z3

from pyvc.unit import unit
from pyvc.values import SV

from .common import no_raise, returned, sem_of

CMP = ("enum", "ComparisonOperator")


def _ops_units(prop, prefix):
    @unit(f"{prefix}.compare", prop, "ngo.utils.ast:compare")
    def _compare(ctx):
        """compare(a, op, b) is exactly `a op b` over the integers, never raises for the six operators"""
        sem = sem_of(ctx)
        a, b, op = ctx.sym("a", "int"), ctx.sym("b", "int"), ctx.sym("op", CMP)
        res = ctx.call(ctx.state(), ctx.fn("ngo.utils.ast", "compare"), [a, op, b])
        ok, bad = returned(res)
        ctx.cover("reach", [])
        for i, (s, v) in enumerate(ok):
            r = ctx.ex.as_z3_bool(ctx.ex.truth(s, v))
            ctx.oblige(f"post#{i}", s, r == sem.cmp_int(op.term, a.term, b.term), replay={"mirror": "compare"})
        no_raise(ctx, "no-raise", res)

    @unit(f"{prefix}.negate_comparison", prop, "ngo.utils.ast:negate_comparison")
    def _negate(ctx):
        """not (a op b)  <=>  a negate(op) b   over Val and over the integers"""
        sem = sem_of(ctx)
        op = ctx.sym("op", CMP)
        a, b = z3.Consts("va0 vb0", sem.Val)
        i, j = z3.Ints("ia jb")
        res = ctx.call(ctx.state(), ctx.fn("ngo.utils.ast", "negate_comparison"), [op])
        ok, bad = returned(res)
        ctx.cover("reach", [])
        for n, (s, v) in enumerate(ok):
            ctx.oblige(f"post-val#{n}", s, z3.Not(sem.cmp_holds(op.term, a, b)) == sem.cmp_holds(v.term, a, b), replay={"mirror": "negate_comparison"})
            ctx.oblige(f"post-int#{n}", s, z3.Not(sem.cmp_int(op.term, i, j)) == sem.cmp_int(v.term, i, j), replay={"mirror": "negate_comparison"})
        no_raise(ctx, "no-raise", res)

    @unit(f"{prefix}.rhs2lhs_comparison", prop, "ngo.utils.ast:rhs2lhs_comparison")
    def _flip(ctx):
        """a op b  <=>  b rhs2lhs(op) a"""
        sem = sem_of(ctx)
        op = ctx.sym("op", CMP)
        a, b = z3.Consts("va0 vb0", sem.Val)
        i, j = z3.Ints("ia jb")
        res = ctx.call(ctx.state(), ctx.fn("ngo.utils.ast", "rhs2lhs_comparison"), [op])
        ok, bad = returned(res)
        ctx.cover("reach", [])
        for n, (s, v) in enumerate(ok):
            ctx.oblige(f"post-val#{n}", s, sem.cmp_holds(op.term, a, b) == sem.cmp_holds(v.term, b, a), replay={"mirror": "rhs2lhs_comparison"})
            ctx.oblige(f"post-int#{n}", s, sem.cmp_int(op.term, i, j) == sem.cmp_int(v.term, j, i), replay={"mirror": "rhs2lhs_comparison"})
        no_raise(ctx, "no-raise", res)
