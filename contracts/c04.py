"""C04 -- valid, safe output (thin): lexical well-formedness of every AST node ngo constructs by name, and safety of
the rules projection emits relative to ngo's binding analysis (reuse of C16).  gringo's own safety check and the
printer/parser round trip are external C++ code: covered only by the bounded stand-in `valid_output_bounded`."""
from __future__ import annotations

import ast as pyast
import os
import re

import z3

from pyvc.unit import UNITS, unit

from . import c16  # noqa: F401

VAR_RE = re.compile(r"^_*[A-Z][A-Za-z0-9_']*$")
ID_RE = re.compile(r"^_*[a-z][A-Za-z0-9_']*$")


def _prefix(node):
    """constant string, or the constant prefix of an f-string / concatenation; None if not determinable"""
    if isinstance(node, pyast.Constant) and isinstance(node.value, str):
        return node.value, True
    if isinstance(node, pyast.JoinedStr):
        pre = ""
        for v in node.values:
            if isinstance(v, pyast.Constant):
                pre += v.value
            else:
                return pre, False
        return pre, True
    if isinstance(node, pyast.BinOp) and isinstance(node.op, pyast.Add):
        l = _prefix(node.left)
        if l is not None:
            return l[0], False
    return None


@unit("C04.lexical", "C04", "ngo/*:<every Variable(...) / Function(...) construction site>", fallback="valid_output_bounded")
def lexical(ctx):
    """every clingo.ast.Variable built with a constant (or constant-prefixed) name has a name clingo's lexer reads as a
    variable (`_*[A-Z]...` or `_`), every clingo.ast.Function built with a constant name has one it reads as an identifier
    (`_*[a-z]...`, or the empty name of a tuple) -- so the printed program parses back to the same nodes"""
    root = os.path.join(ctx.ex.src_root, "ngo")
    bad, sites = [], 0
    for dp, _dn, fns in os.walk(root):
        for fn in sorted(fns):
            if not fn.endswith(".py"):
                continue
            path = os.path.join(dp, fn)
            tree = pyast.parse(open(path, encoding="utf8").read())
            for n in pyast.walk(tree):
                if isinstance(n, pyast.Call) and isinstance(n.func, pyast.Name) and n.func.id in ("Variable", "Function") and len(n.args) >= 2:
                    pre = _prefix(n.args[1])
                    if pre is None:
                        continue
                    sites += 1
                    name, complete = pre
                    if n.func.id == "Variable":
                        ok = name == "_" or (VAR_RE.match(name) is not None if complete else (re.match(r"^_*[A-Z]", name) is not None))
                    else:
                        ok = name == "" or (ID_RE.match(name) is not None if complete else (re.match(r"^_*[a-z]", name) is not None or name == ""))
                    if not ok:
                        bad.append(f"{os.path.relpath(path, ctx.ex.src_root)}:{n.lineno}: {n.func.id}(..., {name!r}{'' if complete else ' + ...'})")
    ctx.cover("reach", [z3.BoolVal(sites > 0)])
    ctx.oblige("sites-found", [], z3.BoolVal(sites >= 20), kind="frame")
    ctx.oblige("names-lexically-valid", [], z3.BoolVal(not bad), kind="post", replay={"mirror": "lexical_site", "sites": bad[:5]})
    ctx.ex.notes.append(f"lexical scan: {sites} construction sites with a constant (prefix) name")
    ctx.assume_note("names computed at run time (aux_pred.name, new_name, domain predicate names) come from UniqueNames / the source and are covered by C07; only constant and constant-prefixed names are scanned")


def _reuse(src_uid, new_uid, keep):
    src = UNITS[src_uid]

    @unit(new_uid, "C04", src.function, doc=f"relative safety: {src.doc[:200]}", fallback=src.fallback)
    def _u(ctx, src=src):
        src.run(ctx)
        ctx.adopt_engine_obligations()
        ctx.obligations = [o for o in ctx.obligations if o.kind in ("cover", "canary") or any(k in o.name for k in keep)]


_reuse("C16.good_split", "C04.split-rules-safe", ["P2-aux-rule-safe", "P5-rest-safe", "P1-interface"])
_reuse("C16.project_rule", "C04.split-rules-shape", ["aux-rule", "updated-rule", "two-rules"])
