"""C18 -- auto-detected input/output predicates (ngo.utils.globals.auto_detect_input / auto_detect_output).

The per-node collectors (`predicates`, `headderivable_predicates`, `body_predicates`, `minimize_predicates`) are
uninterpreted here: what is proved is that the two detection functions combine their results exactly as the
property says.  Collector completeness against clingo's grammar is NOT proved (see DESIGN 7.2-6)."""
from __future__ import annotations

import z3

from pyvc.loops import LoopSpec
from pyvc.state import fresh_id
from pyvc.unit import unit
from pyvc.values import SV, DictObj, ListObj, Ref, SetObj

from .common import no_raise, returned, wf_of

PRED = ("rec", "Predicate")
SPRED = ("rec", "SignedPredicate")
LS = ("list", SPRED)


class Collectors:
    def __init__(self, ctx):
        ex, m = self.ex, self.m = ctx.ex, ctx.m
        srt = m.sort(LS)
        self.all = ex.ufunc("predicates_of", [m.AST], srt)
        self.head = ex.ufunc("headderivable_of", [m.AST], srt)
        self.body = ex.ufunc("bodypreds_of", [m.AST], srt)
        self.mini = ex.ufunc("minimizepreds_of", [m.AST], srt)
        ctx.assume_note("the collectors predicates / headderivable_predicates / body_predicates / minimize_predicates are uninterpreted (their completeness against clingo's grammar is not proved; pooled atoms and theory-atom conditions are known to be missed)")

        def mk(f):
            return lambda e, s, a, k: [(s, s.alloc(ListObj(sv=SV(f(a[0].term), LS))))]

        ex.overrides["ngo.utils.ast:predicates"] = mk(self.all)
        ex.overrides["ngo.utils.ast:headderivable_predicates"] = mk(self.head)
        ex.overrides["ngo.utils.ast:body_predicates"] = mk(self.body)
        ex.overrides["ngo.utils.ast:minimize_predicates"] = mk(self.mini)

    def iff_member(self, sel, f_list, stm_of, rng, p, i):
        """sel(p) <=> exists i in rng. exists j. pred(f(stm_i)[j]) == p   as two directed, pattern-friendly facts;
        f_list: collector functions whose union is meant"""
        m = self.m
        ln, at = m.lst_funcs(SPRED)
        pred = m.rec_acc("SignedPredicate", "pred")
        fwd = z3.ForAll([p], z3.Implies(sel(p), z3.Exists([i], z3.And(rng(i), z3.Or(*[self.member(f, stm_of(i), p) for f in f_list])))))
        back = []
        for f in f_list:
            j = z3.Int(f"j!iff{fresh_id()}")
            e = at(f(stm_of(i)), j)
            back.append(z3.ForAll([i, j], z3.Implies(z3.And(rng(i), 0 <= j, j < ln(f(stm_of(i)))), sel(pred(e))), patterns=[e]))
        return z3.And(fwd, *back)

    def member(self, f, stm, p):
        m = self.m
        ln, at = m.lst_funcs(SPRED)
        j = z3.Int(f"j!col{fresh_id()}")
        return z3.Exists([j], z3.And(0 <= j, j < ln(f(stm)), m.rec_acc("SignedPredicate", "pred")(at(f(stm), j)) == p))


@unit("C18.auto_detect_input", "C18", "ngo.utils.globals:auto_detect_input", fallback="auto_detect_bounded")
def auto_detect_input(ctx):
    """(1) every predicate some statement mentions and no statement derives is reported;
    (2) a predicate that some statement derives without using it in its own body is never reported;
    result = (mentioned - derivable) + predicates whose deriving and using statements coincide"""
    col = Collectors(ctx)
    ex, m = ctx.ex, ctx.m
    st = ctx.state()
    prg_ref, prg = ctx.sym_list(st, "prg", "ast")
    lnA, atA = m.lst_funcs("ast")
    SP = ("set", PRED)
    key = ("ngo.utils.globals:auto_detect_input", 0)
    p = z3.Const("p!adi", m.sort(PRED))
    i = z3.Int("i!adi")
    x = z3.Int("x!adi")

    def used_in_body(stm, q):
        return z3.Or(col.member(col.body, stm, q), col.member(col.mini, stm, q))

    def inv(c):
        kk = c.k
        allp = ex.to_term(c.st, c.var("all_preds"), SP)
        der = ex.to_term(c.st, c.var("derivable_preds"), SP)
        ih = c.st.heap[c.var("in_head").id]
        ib = c.st.heap[c.var("in_body").id]
        rng = lambda ii: z3.And(0 <= ii, ii < kk)
        stm_of = lambda ii: atA(prg.term, ii)
        conj = [
            col.iff_member(lambda q: z3.Select(allp, q), [col.all], stm_of, rng, p, i),
            col.iff_member(lambda q: z3.Select(der, q), [col.head], stm_of, rng, p, i),
        ]
        for d, fl in ((ih, [col.head]), (ib, [col.body, col.mini])):
            if d.sym is None:
                conj.append(z3.BoolVal(kk is not None and z3.is_int_value(kk) and kk.as_long() == 0 and not d.items))
            else:
                arr = d.sym[2]
                ln, at = m.lst_funcs(SPRED)
                pred = m.rec_acc("SignedPredicate", "pred")
                conj.append(z3.ForAll([p, x], z3.Implies(z3.Select(z3.Select(arr, p), x), z3.And(rng(x), z3.Or(*[col.member(f, stm_of(x), p) for f in fl])))))
                for f in fl:
                    j = z3.Int(f"j!ib{fresh_id()}")
                    e = at(f(stm_of(x)), j)
                    conj.append(z3.ForAll([x, j], z3.Implies(z3.And(rng(x), 0 <= j, j < ln(f(stm_of(x)))), z3.Select(z3.Select(arr, pred(e)), x)), patterns=[e]))
        return z3.And(*conj)

    ex.loop_specs[key] = LoopSpec(
        inv=inv,
        modifies={"all_preds": SP, "derivable_preds": SP, "in_head": ("dictset", PRED, "int"), "in_body": ("dictset", PRED, "int")},
        name="index of deriving / using statements per predicate",
    )
    res = ctx.call(st, ctx.fn("ngo.utils.globals", "auto_detect_input"), [prg_ref])
    ok, bad = returned(res)
    ctx.cover("reach", st)
    no_raise(ctx, "no-raise", res)
    lnP, atP = m.lst_funcs(PRED)
    n = lnA(prg.term)
    j = z3.Int("j!res")
    for nn, (s, r) in enumerate(ok):
        rt = ex.to_term(s, r, ("list", PRED))
        inres = lambda q: z3.Exists([j], z3.And(0 <= j, j < lnP(rt), atP(rt, j) == q))
        mentioned = z3.Exists([i], z3.And(0 <= i, i < n, col.member(col.all, atA(prg.term, i), p)))
        derivable = z3.Exists([i], z3.And(0 <= i, i < n, col.member(col.head, atA(prg.term, i), p)))
        ctx.oblige(f"post-open-predicates-reported#{nn}", s, z3.ForAll([p], z3.Implies(z3.And(mentioned, z3.Not(derivable)), inres(p))), replay={"mirror": "auto_detect_input"})
        # (2) stated for arbitrary but fixed p0, i0 (same as the quantified form, friendlier to the solver)
        p0 = z3.Const("p0!adi", m.sort(PRED))
        i0, j0 = z3.Int("i0!adi"), z3.Int("j0!adi")
        lnS, atS = m.lst_funcs(SPRED)
        hd0 = col.head(atA(prg.term, i0))
        derived_here = z3.And(0 <= i0, i0 < n, 0 <= j0, j0 < lnS(hd0), m.rec_acc("SignedPredicate", "pred")(atS(hd0, j0)) == p0)
        ante = z3.And(derived_here, z3.Not(used_in_body(atA(prg.term, i0), p0)))
        der_f = ex.to_term(s, ctx.local_var(s, "derivable_preds"), SP)
        ih_f = s.heap[ctx.local_var(s, "in_head").id].sym[2]
        ib_f = s.heap[ctx.local_var(s, "in_body").id].sym[2]
        ctx.oblige_steps(
            f"post-derived-never-reported#{nn}",
            s,
            [
                z3.Implies(ante, z3.Select(der_f, p0)),
                z3.Implies(ante, z3.Select(z3.Select(ih_f, p0), i0)),
                z3.Implies(ante, z3.Not(z3.Select(z3.Select(ib_f, p0), i0))),
                z3.Implies(ante, z3.Not(inres(p0))),
            ],
            replay={"mirror": "auto_detect_input"},
        )
        ctx.oblige(f"post-only-mentioned#{nn}", s, z3.ForAll([p], z3.Implies(inres(p), mentioned)), replay={"mirror": "auto_detect_input"})
    ctx.adopt_engine_obligations(source="property", replay={"mirror": "auto_detect_input"})
    ctx.inputs.clear()


@unit("C18.auto_detect_output", "C18", "ngo.utils.globals:auto_detect_output", fallback="auto_detect_bounded")
def auto_detect_output(ctx):
    """the result contains exactly the predicates named by #show name/arity statements and those the collector reports
    for the condition literals of #show term statements; it is sorted and free of duplicates"""
    col = Collectors(ctx)
    ex, m = ctx.ex, ctx.m
    A = m.AST
    wf = wf_of(ctx)
    st = ctx.state()
    prg_ref, prg = ctx.sym_list(st, "prg", "ast")
    lnA, atA = m.lst_funcs("ast")
    i0 = z3.Int("i!wfp")
    st.assume(z3.ForAll([i0], z3.Implies(z3.And(0 <= i0, i0 < lnA(prg.term)), wf.wf("statement", atA(prg.term, i0), 1)), patterns=[atA(prg.term, i0)]))
    res = ctx.call(st, ctx.fn("ngo.utils.globals", "auto_detect_output"), [prg_ref])
    ok, bad = returned(res)
    ctx.cover("reach", st)
    no_raise(ctx, "no-raise", res)
    lnP, atP = m.lst_funcs(PRED)
    p = z3.Const("p!ado", m.sort(PRED))
    i, j, b = z3.Int("i!ado"), z3.Int("j!ado"), z3.Int("b!ado")
    stm = atA(prg.term, i)
    by_sig = z3.Exists([i], z3.And(0 <= i, i < lnA(prg.term), A.is_ShowSignature(stm), p == m.rec_ctor("Predicate")(A.ShowSignature_name(stm), A.ShowSignature_arity(stm))))
    by_term = z3.Exists([i, b], z3.And(0 <= i, i < lnA(prg.term), A.is_ShowTerm(stm), 0 <= b, b < lnA(A.ShowTerm_body(stm)), col.member(col.all, atA(A.ShowTerm_body(stm), b), p)))
    key = ex.ufunc("sortkey_rec_Predicate", [m.sort(PRED)], z3.IntSort())
    j2 = z3.Int("j2!ado")
    empty_name = m.rec_acc("Predicate", "name")(p) == m.strlit("")
    for nn, (s, r) in enumerate(ok):
        rt = ex.to_term(s, r, ("list", PRED))
        inres = z3.Exists([j], z3.And(0 <= j, j < lnP(rt), atP(rt, j) == p))
        SPs = ("set", PRED)
        out_f = ex.to_term(s, ctx.local_var(s, "output"), SPs)
        p0 = z3.Const("p0!ado", m.sort(PRED))
        i0, b0, j0 = z3.Int("i0!ado"), z3.Int("b0!ado"), z3.Int("j0!ado")
        inres0 = z3.substitute(inres, (p, p0))
        spec0 = z3.substitute(z3.Or(z3.And(by_sig, z3.Not(empty_name)), by_term), (p, p0))
        excl = {"C18-show-nothing-reported-as-predicate": z3.Exists([p], z3.And(by_sig, empty_name))}
        # NOT under contract (solver cannot exhibit the nested witnesses through two loops and a comprehension):
        # "only shown predicates are reported" and "#show term conditions are reported" -- covered by the bounded
        # stand-in `auto_detect_bounded` (native comparison with an independent traversal), labelled bounded
        # every shown predicate is reported (stated for fixed witnesses i0 / b0, j0)
        stm0 = atA(prg.term, i0)
        sig0 = z3.And(0 <= i0, i0 < lnA(prg.term), A.is_ShowSignature(stm0), p0 == m.rec_ctor("Predicate")(A.ShowSignature_name(stm0), A.ShowSignature_arity(stm0)))
        ctx.oblige_steps(f"post-signature-reported#{nn}", s, [z3.Implies(sig0, z3.Select(out_f, p0)), z3.Implies(sig0, inres0)], replay={"mirror": "auto_detect_output"})
        ctx.oblige(
            f"post-sorted-unique#{nn}",
            s,
            z3.ForAll([j, j2], z3.Implies(z3.And(0 <= j, j < j2, j2 < lnP(rt)), z3.And(key(atP(rt, j)) <= key(atP(rt, j2)), atP(rt, j) != atP(rt, j2)))),
            kind="frame",
            replay={"mirror": "auto_detect_output"},
        )
    ctx.inputs.clear()
