"""C15 -- inline: when an aggregate-defining rule may be unfolded, and what replaces it (ngo.inline.InlineTranslator)"""
from __future__ import annotations

import z3

from pyvc.loops import LoopSpec
from pyvc.state import fresh_id
from pyvc.unit import unit
from pyvc.values import SV, ListObj, Obj, Opaque, Ref, SetObj, Tup

from .common import install_collect_ast, no_raise, returned, sem_of, wf_of

FB15 = {"mirror": "corpus", "trait": "inline"}
LA = ("list", "ast")
SA = ("set", "ast")


def _install_agg_analytics(ctx):
    """AggAnalytics through an abstraction of its (proved, C12/C13.AggAnalytics.init) contract: the list of variable
    names bound by an `=` guard and the list of remaining bounds are uninterpreted functions of the aggregate"""
    m, ex = ctx.m, ctx.ex
    eqv = ex.ufunc("agg_equal_vars", [m.AST], m.sort(("list", "str")))
    bnd = ex.ufunc("agg_bounds", [m.AST], m.sort(LA))

    def agg_init(e, s, a, k):
        o = s.heap[a[0].id]
        o = o.set("equal_variable_bound", s.alloc(ListObj(sv=SV(eqv(a[1].term), ("list", "str")))))
        o = o.set("bounds", s.alloc(ListObj(sv=SV(bnd(a[1].term), LA))))
        s.heap[a[0].id] = o
        return [(s, None)]

    ex.overrides["ngo.utils.ast:AggAnalytics.__init__"] = agg_init
    ctx.assume_note("AggAnalytics.__init__ is used through an abstraction: equal_variable_bound / bounds are uninterpreted functions of the aggregate (their meaning is proved in C12/C13.AggAnalytics.init)")
    return eqv, bnd


def _install_globals(ctx):
    m, ex = ctx.m, ctx.ex
    G = ex.ufunc("global_vars_body", [m.sort(LA)], m.sort(SA))

    def gvb(e, s, a, k):
        lst = e.to_term(s, a[0], LA)
        return [(s, s.alloc(SetObj(sv=SV(G(lst), SA))))]

    ex.overrides["ngo.utils.ast:global_vars_inside_body"] = gvb
    ctx.assume_note("global_vars_inside_body is uninterpreted (binding analysis, see C16)")
    return G


def _install_unifying(ctx):
    m, ex = ctx.m, ctx.ex
    U = ex.ufunc("potentially_unifying_sequence", [m.sort(LA), m.sort(LA)], z3.BoolSort())

    def pus(e, s, a, k):
        return [(s, SV(U(e.to_term(s, a[0], LA), e.to_term(s, a[1], LA)), "bool"))]

    ex.overrides["ngo.utils.ast:potentially_unifying_sequence"] = pus
    ctx.assume_note("potentially_unifying_sequence is uninterpreted: assumed to over-approximate 'two tuples can denote the same ground tuple'")
    return U


@unit("C15.inline_minimize", "C15", "ngo.inline:InlineTranslator.inline_minimize", fallback=FB15)
def inline_minimize(ctx):
    """an objective statement is only replaced if it is `:~ B, X = #sum/#sum+/#count{E}. [X@p,T]` with exactly one body
    aggregate, X bound by that aggregate's only guard, X used nowhere else, every global variable of the aggregate
    part of the tuple (p,T), a #sum+ only with non-negative numeric weights, and no other objective tuple of the
    program -- not even a textually identical one of another statement -- potentially unifying with (X,p,T); it is then replaced by one statement per element `w,t : c` of E:
    `:~ B, c. [w@p,t,T,unique..]`, padded to be longer than every objective tuple of the program"""
    m, ex = ctx.m, ctx.ex
    wf = wf_of(ctx)
    A = m.AST
    F = m.enums["AggregateFunction"][1]
    st = ctx.state()
    stm = ctx.sym("stm", "ast")
    st.assume(wf.wf("statement", stm.term, 2))
    ln, at = m.lst_funcs("ast")
    collect = install_collect_ast(ctx)
    eqv, bnd = _install_agg_analytics(ctx)
    G = _install_globals(ctx)
    U = _install_unifying(ctx)
    ex.functional_lists = True
    agg0 = at(collect("BodyAggregate")(stm.term), 0)
    st.assume(z3.Implies(ln(collect("BodyAggregate")(stm.term)) > 0, wf.wf("BodyAggregate", agg0, 2)))
    tuples_ref, tuples = ctx.sym_list(st, "minimize_tuples", LA)
    me = ctx.new_object(st, "InlineTranslator", minimize_tuples=tuples_ref)
    lnL, atL = m.lst_funcs(LA)
    i = z3.Int("i!mt")

    def inv_max(c):
        ma = c.term("max_arity", "int")
        return [ma >= 0, z3.ForAll([i], z3.Implies(z3.And(0 <= i, i < c.k), ln(atL(tuples.term, i)) <= ma))]

    ex.loop_specs[("ngo.inline:InlineTranslator.inline_minimize", "in self.minimize_tuples")] = LoopSpec(inv=inv_max, modifies={"max_arity": "int"}, name="max_arity bounds the tuples seen so far")
    res = ctx.call(st, ctx.method("ngo.inline", "InlineTranslator", "inline_minimize", me), [stm])
    ok, bad = returned(res)
    ctx.cover("reach", st)
    no_raise(ctx, "no-raise", res, kind="assert")
    S = m.Sym
    body = A.Minimize_body(stm.term)
    weight, prio, terms = A.Minimize_weight(stm.term), A.Minimize_priority(stm.term), A.Minimize_terms(stm.term)
    aggs = collect("BodyAggregate")(stm.term)
    E = A.BodyAggregate_elements(agg0)
    fn = A.BodyAggregate_function(agg0)
    k, j, q, q2 = z3.Int("k!im"), z3.Int("j!im"), z3.Int("q!im"), z3.Int("q2!im")
    v = z3.Const("v!im", m.AST)
    el = at(E, k)
    et = A.BodyAggregateElement_terms(el)
    w0 = at(et, 0)
    lnS, atS = m.lst_funcs("str")

    def mem(x, lst):
        jj = z3.Int(f"j!mem{fresh_id()}")
        return z3.Exists([jj], z3.And(0 <= jj, jj < ln(lst), at(lst, jj) == x))

    varsof = collect("Variable")

    def ext(a, b):
        """list extensionality for this pair (true of Python lists; the list sort of the model is not extensional)"""
        ii = z3.Int(f"i!ext{fresh_id()}")
        return z3.Implies(z3.And(ln(a) == ln(b), z3.ForAll([ii], z3.Implies(z3.And(0 <= ii, ii < ln(a)), at(a, ii) == at(b, ii)))), a == b)

    n_changed = 0
    for n, (s, r) in enumerate(ok):
        items = ex.B.concrete_items(s, r)
        if items is not None:
            same = len(items) == 1 and isinstance(items[0], SV)
            ctx.oblige(f"frame-unchanged-statement-returned-as-is#{n}", s, (items[0].term == stm.term) if same else z3.BoolVal(False), kind="frame", replay=FB15)
            continue
        n_changed += 1
        import os
        if os.environ.get("C15_DEBUG"):
            for f in s.pc:
                t = str(f)
                if "at_list_ast(acc" in t or "len_list_ast(acc" in t:
                    print("  FACT", t[:2500])
        R = ex.to_term(s, r, LA)
        gate = [
            ("is-objective-with-one-aggregate", z3.And(A.is_Minimize(stm.term), ln(aggs) == 1)),
            ("sum-like-function", z3.Or(fn == F["Sum"], fn == F["SumPlus"], fn == F["Count"])),
            ("every-element-has-a-weight", z3.ForAll([k], z3.Implies(z3.And(0 <= k, k < ln(E)), ln(et) > 0))),
            (
                "sum-plus-only-with-non-negative-numbers",
                z3.Implies(
                    fn == F["SumPlus"],
                    z3.ForAll([k], z3.Implies(z3.And(0 <= k, k < ln(E)), z3.And(A.is_SymbolicTerm(w0), S.is_SymNumber(A.SymbolicTerm_symbol(w0)), S.sym_number(A.SymbolicTerm_symbol(w0)) >= 0))),
                ),
            ),
            ("value-bound-by-the-only-guard", z3.And(lnS(eqv(agg0)) == 1, ln(bnd(agg0)) == 0, weight == A.Variable(atS(eqv(agg0), 0)))),
            (
                "aggregate-globals-are-part-of-the-tuple",
                z3.ForAll(
                    [v],
                    z3.Implies(
                        z3.And(z3.Select(G(body), v), mem(v, varsof(agg0)), v != weight),
                        z3.Or(mem(v, varsof(prio)), z3.Exists([q], z3.And(0 <= q, q < ln(terms), mem(v, varsof(at(terms, q)))))),
                    ),
                ),
            ),
        ]
        for nm, g in gate:
            ctx.oblige(f"gate-{nm}#{n}", s, g, replay=FB15)
        sums = [e for e in s.log if e[0] == "sum"]
        if len(sums) == 1:
            _, sres, sn, sk, sval = sums[0]
            allv = varsof(stm.term)
            ctx.oblige(
                f"gate-value-variable-used-exactly-twice#{n}",
                s,
                z3.And(sres.term == 2, sn == ln(allv), z3.ForAll([sk], z3.Implies(z3.And(0 <= sk, sk < sn), sval == z3.If(at(allv, sk) == weight, 1, 0)))),
                replay=FB15,
            )
        else:
            ctx.oblige(f"gate-value-variable-used-exactly-twice#{n}", s, z3.BoolVal(False), replay=FB15)
        # no other objective tuple potentially unifies with (X, p, T)
        rt = ex.to_term(s, ctx.local_var(s, "replace_terms"), LA)
        ctx.oblige(
            f"gate-own-tuple-is-weight-priority-terms#{n}",
            s,
            z3.And(ln(rt) == 2 + ln(terms), at(rt, 0) == weight, at(rt, 1) == prio, z3.ForAll([j], z3.Implies(z3.And(0 <= j, j < ln(terms)), at(rt, j + 2) == at(terms, j)))),
            kind="frame",
            replay=FB15,
        )
        ctx.oblige(
            f"gate-no-other-tuple-unifies#{n}",
            s,
            # at most ONE position of the program's objective tuples (this statement's own) may potentially unify with
            # (X,p,T): a textually identical tuple of another statement counts as another tuple
            z3.ForAll([q, q2], z3.Implies(z3.And(0 <= q, q < q2, q2 < lnL(tuples.term)), z3.Not(z3.And(U(atL(tuples.term, q), rt), U(atL(tuples.term, q2), rt))))),
            replay=FB15,
        )
        # shape of the replacement: one objective statement per aggregate element
        new = at(R, k)
        nt = A.Minimize_terms(new)
        ctx.oblige(f"shape-one-statement-per-element#{n}", s, ln(R) == ln(E), replay=FB15)
        ctx.oblige(
            f"shape-weight-and-priority#{n}",
            s,
            z3.ForAll([k], z3.Implies(z3.And(0 <= k, k < ln(E)), z3.And(A.is_Minimize(new), A.Minimize_priority(new) == prio, z3.Implies(fn != F["Count"], A.Minimize_weight(new) == w0)))),
            replay=FB15,
        )
        ctx.oblige(
            f"shape-tuple-keeps-element-and-statement-terms#{n}",
            s,
            z3.ForAll(
                [k],
                z3.Implies(
                    z3.And(0 <= k, k < ln(E)),
                    z3.And(
                        ln(nt) >= ln(et) - 1 + ln(terms),
                        z3.ForAll([j], z3.Implies(z3.And(0 <= j, j < ln(et) - 1), at(nt, j) == at(et, j + 1))),
                        z3.ForAll([j], z3.Implies(z3.And(0 <= j, j < ln(terms)), at(nt, ln(et) - 1 + j) == at(terms, j))),
                    ),
                ),
            ),
            replay=FB15,
        )
        ctx.oblige(
            f"shape-tuple-longer-than-every-objective-tuple#{n}",
            s,
            z3.ForAll([k, q], z3.Implies(z3.And(0 <= k, k < ln(E), 0 <= q, q < lnL(tuples.term)), ln(nt) + 2 > ln(atL(tuples.term, q)))),
            replay=FB15,
        )
    ctx.cover("some-unfolding-path", [z3.BoolVal(n_changed > 0)])
    ctx.inputs.clear()


def _install_transform_args(ctx):
    """transform_args(orig, passed, asts, unique_vars): uninterpreted, length preserving, elementwise (one substitution
    per call, applied to every element of asts -- terms, rule body and condition are passed in ONE call by the code)"""
    m, ex = ctx.m, ctx.ex
    ls = m.sort(LA)
    T = ex.ufunc("transform_args", [ls, ls, ls], ls)
    sub = ex.ufunc("substituted", [ls, ls, m.AST], m.AST)
    ln, at = m.lst_funcs("ast")
    o_, p_, l_, j_ = z3.Const("o!ta", ls), z3.Const("p!ta", ls), z3.Const("l!ta", ls), z3.Int("j!ta")
    m.global_axioms.append(z3.ForAll([o_, p_, l_], ln(T(o_, p_, l_)) == ln(l_), patterns=[T(o_, p_, l_)]))
    m.global_axioms.append(z3.ForAll([o_, p_, l_, j_], z3.Implies(z3.And(0 <= j_, j_ < ln(l_)), at(T(o_, p_, l_), j_) == sub(o_, p_, at(l_, j_))), patterns=[at(T(o_, p_, l_), j_)]))
    m.global_axioms.append(z3.ForAll([o_, p_, l_, j_], z3.Implies(z3.And(0 <= j_, j_ < ln(l_)), at(T(o_, p_, l_), j_) == sub(o_, p_, at(l_, j_))), patterns=[z3.MultiPattern(T(o_, p_, l_), at(l_, j_))]))

    def ta(e, s, a, k):
        # staticmethod called through self: drop the receiver
        args = [x for x in a if not (isinstance(x, Ref) and isinstance(s.heap.get(x.id), Obj))]
        o, p, l = (e.to_term(s, x, LA) for x in args[:3])
        return [(s, s.alloc(ListObj(sv=SV(T(o, p, l), LA))))]

    ex.overrides["ngo.inline:InlineTranslator.transform_args"] = ta
    ctx.assume_note("transform_args is uninterpreted: length preserving, elementwise, a substitution determined by (orig, passed); the naming of fresh variables through UniqueVariables (and that one call uses one naming) is not modelled")
    return T, sub


@unit("C15.compute_new_body_elements", "C15", "ngo.inline:InlineTranslator.compute_new_body_elements", fallback=FB15)
def compute_new_body_elements(ctx):
    """for every element `t : c` of the unfolded rule's aggregate the outer aggregate gets one element whose tuple is
    s(t) followed by the remaining terms of the replaced element and padded with `unique` to be LONGER than the tuple
    of every remaining element of the outer aggregate, and whose condition consists of s(non-aggregate body of the
    rule), s(c) and every other literal of the replaced element's condition (s = the one substitution of this call)"""
    m, ex = ctx.m, ctx.ex
    wf = wf_of(ctx)
    A = m.AST
    st = ctx.state()
    ln, at = m.lst_funcs("ast")
    rule, rcond, relem, agg, atom = (ctx.sym(n_, "ast") for n_ in ("rule", "replace_cond", "replace_elem", "agg", "atom"))
    st.assume(wf.wf("Rule", rule.term, 1))
    head = A.Rule_head(rule.term)
    st.assume(A.is_Literal(head), A.is_SymbolicAtom(A.Literal_atom(head)), A.is_Function(A.SymbolicAtom_symbol(A.Literal_atom(head))))
    st.assume(A.is_Literal(rcond.term), A.is_SymbolicAtom(A.Literal_atom(rcond.term)), A.is_Function(A.SymbolicAtom_symbol(A.Literal_atom(rcond.term))))
    st.assume(wf.wf("BodyAggregateElement", relem.term, 1), wf.wf("BodyAggregate", agg.term, 2), wf.wf("BodyAggregate", atom.term, 2))
    i0 = z3.Int("i!wfb")
    st.assume(z3.ForAll([i0], z3.Implies(z3.And(0 <= i0, i0 < ln(A.Rule_body(rule.term))), wf.wf("body_literal", at(A.Rule_body(rule.term), i0), 1)), patterns=[at(A.Rule_body(rule.term), i0)]))
    T, sub = _install_transform_args(ctx)
    ex.functional_lists = True
    ex.resolve_ctors = True
    OE = A.BodyAggregate_elements(atom.term)
    IE = A.BodyAggregate_elements(agg.term)
    i = z3.Int("i!ce")

    def inv_max(c):
        ma = c.term("max_arity", "int")
        return [ma >= 0, z3.ForAll([i], z3.Implies(z3.And(0 <= i, i < c.k, at(OE, i) != relem.term), ln(A.BodyAggregateElement_terms(at(OE, i))) <= ma))]

    ex.loop_specs[("ngo.inline:InlineTranslator.compute_new_body_elements", "in atom.elements")] = LoopSpec(inv=inv_max, modifies={"max_arity": "int"}, name="max_arity bounds the remaining tuples seen so far")
    me = ctx.new_object(st, "InlineTranslator")
    uv = Opaque("unique_vars")
    res = ctx.call(st, ctx.method("ngo.inline", "InlineTranslator", "compute_new_body_elements", me), [rule, rcond, relem, agg, atom, uv])
    ok, bad = returned(res)
    ctx.cover("reach", st)
    no_raise(ctx, "no-raise", res, kind="assert")
    k, j, q = z3.Int("k!ce"), z3.Int("j!ce"), z3.Int("q!ce")
    el = at(IE, k)
    et, ec = A.BodyAggregateElement_terms(el), A.BodyAggregateElement_condition(el)
    rterms, rconds = A.BodyAggregateElement_terms(relem.term), A.BodyAggregateElement_condition(relem.term)
    body = A.Rule_body(rule.term)
    x = z3.Const("x!ce", m.AST)
    o_args = A.Function_arguments(A.SymbolicAtom_symbol(A.Literal_atom(head)))
    p_args = A.Function_arguments(A.SymbolicAtom_symbol(A.Literal_atom(rcond.term)))

    def mem(y, lst):
        jj = z3.Int(f"j!mem{fresh_id()}")
        return z3.Exists([jj], z3.And(0 <= jj, jj < ln(lst), at(lst, jj) == y))

    def agg_lit(b):
        return z3.And(A.is_Literal(b), A.is_BodyAggregate(A.Literal_atom(b)))

    for n, (s, r) in enumerate(ok):
        R = ex.to_term(s, r, LA)
        import os
        if os.environ.get("C15_DEBUG"):
            print("R =", R)
            for f in s.pc:
                if str(R) in str(f):
                    print("  FACT", str(f)[:6000])
        new = at(R, k)
        nt, nc = A.BodyAggregateElement_terms(new), A.BodyAggregateElement_condition(new)
        rng = z3.And(0 <= k, k < ln(IE))
        ctx.oblige(f"shape-one-element-per-inner-element#{n}", s, z3.And(ln(R) == ln(IE), z3.ForAll([k], z3.Implies(rng, A.is_BodyAggregateElement(new)))), replay=FB15)
        ctx.oblige(
            f"shape-tuple-is-inner-tuple-then-rest-of-replaced-tuple#{n}",
            s,
            z3.ForAll(
                [k],
                z3.Implies(
                    rng,
                    z3.And(
                        ln(nt) >= ln(et) + z3.If(ln(rterms) > 1, ln(rterms) - 1, 0),
                        z3.ForAll([j], z3.Implies(z3.And(0 <= j, j < ln(et)), at(nt, j) == sub(o_args, p_args, at(et, j)))),
                        z3.ForAll([j], z3.Implies(z3.And(1 <= j, j < ln(rterms)), at(nt, ln(et) + j - 1) == at(rterms, j))),
                    ),
                ),
            ),
            replay=FB15,
        )
        ctx.oblige(
            f"shape-tuple-longer-than-every-remaining-tuple#{n}",
            s,
            z3.ForAll([k, q], z3.Implies(z3.And(rng, 0 <= q, q < ln(OE), at(OE, q) != relem.term), ln(nt) > ln(A.BodyAggregateElement_terms(at(OE, q))))),
            replay=FB15,
        )
        # lemma steps (positional, helper level): the new condition is s(rule body without aggregates) ++ s(c) ++ rest
        rbody = ex.to_term(s, ctx.local_var(s, "rbody"), LA)
        W = ex.B.without_term(s, SV(rconds, LA), rcond, "ast")
        lb, le_ = ln(rbody), ln(ec)

        jr = z3.Int("jr!ce")
        AT = m.enums["ASTType"][1]

        def agg_lit_e(b_):
            """`blit.ast_type == Literal and blit.atom.ast_type == BodyAggregate` in the engine's own vocabulary"""
            return z3.And(z3.simplify(m.ast_type(b_) == AT["Literal"]), z3.simplify(m.ast_type(A.Literal_atom(b_)) == AT["BodyAggregate"]))

        lemmas = {
            # the filtered rule body: exactly the literals of the body that are not aggregate literals
            "rbody-complete": z3.ForAll([q], z3.Implies(z3.And(0 <= q, q < ln(body), z3.Not(agg_lit_e(at(body, q)))), z3.Exists([jr], z3.And(0 <= jr, jr < lb, at(rbody, jr) == at(body, q)))), patterns=[at(body, q)]),
            "rbody-sound": z3.ForAll([jr], z3.Implies(z3.And(0 <= jr, jr < lb), z3.Exists([q], z3.And(0 <= q, q < ln(body), z3.Not(agg_lit_e(at(body, q))), at(rbody, jr) == at(body, q)))), patterns=[at(rbody, jr)]),
            "rest-complete": z3.ForAll([q], z3.Implies(z3.And(0 <= q, q < ln(rconds), at(rconds, q) != rcond.term), z3.Exists([jr], z3.And(0 <= jr, jr < ln(W), at(W, jr) == at(rconds, q)))), patterns=[at(rconds, q)]),
            "rest-sound": z3.ForAll([jr], z3.Implies(z3.And(0 <= jr, jr < ln(W)), z3.And(at(W, jr) != rcond.term, z3.Exists([q], z3.And(0 <= q, q < ln(rconds), at(W, jr) == at(rconds, q))))), patterns=[at(W, jr)]),
            "len": z3.ForAll([k], z3.Implies(rng, ln(nc) == lb + le_ + ln(W)), patterns=[nc]),
            # by position ...
            "pos-body": z3.ForAll([k, j], z3.Implies(z3.And(rng, 0 <= j, j < lb), at(nc, j) == sub(o_args, p_args, at(rbody, j))), patterns=[at(nc, j)]),
            "pos-cond": z3.ForAll([k, j], z3.Implies(z3.And(rng, lb <= j, j < lb + le_), at(nc, j) == sub(o_args, p_args, at(ec, j - lb))), patterns=[at(nc, j)]),
            "pos-rest": z3.ForAll([k, j], z3.Implies(z3.And(rng, lb + le_ <= j, j < lb + le_ + ln(W)), at(nc, j) == at(W, j - lb - le_)), patterns=[at(nc, j)]),
            # ... and by element (so that `some position holds x` goals find their witness)
            "elem-body": z3.ForAll([k, j], z3.Implies(z3.And(rng, 0 <= j, j < lb), at(nc, j) == sub(o_args, p_args, at(rbody, j))), patterns=[z3.MultiPattern(nc, at(rbody, j))]),
            "elem-cond": z3.ForAll([k, j], z3.Implies(z3.And(rng, 0 <= j, j < le_), at(nc, lb + j) == sub(o_args, p_args, at(ec, j))), patterns=[at(ec, j)]),
            "elem-rest": z3.ForAll([k, j], z3.Implies(z3.And(rng, 0 <= j, j < ln(W)), at(nc, lb + le_ + j) == at(W, j)), patterns=[z3.MultiPattern(nc, at(W, j))]),
        }
        # each of these is proved from the whole state and is part of the contract (the order of the condition is the
        # one the printed program shows, and the test suite pins it); the membership statements below, which are what
        # the property needs, are proved from them alone
        for nm, f in lemmas.items():
            ctx.oblige(f"shape-condition-layout-{nm}#{n}", s, f, replay=FB15)

        def using(*names):
            # ln(W) >= 0 is an instance of a global axiom; it only makes the ground term W visible to E-matching
            return [lemmas[x] for x in names] + [ln(W) >= 0]

        ctx.oblige(
            f"shape-condition-keeps-the-other-literals#{n}",
            using("len", "elem-rest", "rest-complete"),
            # (ln(nc) >= 0 holds for every list: it only makes the ground term nc visible to E-matching)
            z3.ForAll([k, q], z3.Implies(z3.And(rng, ln(nc) >= 0, 0 <= q, q < ln(rconds), at(rconds, q) != rcond.term), mem(at(rconds, q), nc))),
            replay=FB15,
        )
        ctx.oblige(
            f"shape-condition-has-the-unfolded-condition#{n}",
            using("len", "elem-cond"),
            z3.ForAll([k, q], z3.Implies(z3.And(rng, ln(nc) >= 0, 0 <= q, q < ln(ec)), mem(sub(o_args, p_args, at(ec, q)), nc))),
            replay=FB15,
        )
        ctx.oblige(
            f"shape-condition-has-the-unfolded-rule-body#{n}",
            using("len", "rbody-complete", "elem-body"),
            z3.ForAll([k, q], z3.Implies(z3.And(rng, ln(nc) >= 0, 0 <= q, q < ln(body), z3.Not(agg_lit_e(at(body, q)))), mem(sub(o_args, p_args, at(body, q)), nc))),
            replay=FB15,
        )
        ctx.oblige(
            f"shape-condition-has-nothing-else#{n}",
            using("len", "rbody-sound", "rest-sound", "pos-body", "pos-cond", "pos-rest"),
            z3.ForAll(
                [k, q],
                z3.Implies(
                    z3.And(rng, 0 <= q, q < ln(nc)),
                    z3.Or(
                        z3.Exists([j], z3.And(0 <= j, j < ln(ec), at(nc, q) == sub(o_args, p_args, at(ec, j)))),
                        z3.Exists([j], z3.And(0 <= j, j < ln(body), z3.Not(agg_lit_e(at(body, j))), at(nc, q) == sub(o_args, p_args, at(body, j)))),
                        z3.Exists([j], z3.And(0 <= j, j < ln(rconds), at(rconds, j) != rcond.term, at(nc, q) == at(rconds, j))),
                    ),
                ),
            ),
            kind="frame",
            replay=FB15,
        )
    ctx.inputs.clear()


@unit("C15.inline_body_aggregate", "C15", "ngo.inline:InlineTranslator.inline_body_aggregate", fallback=FB15)
def inline_body_aggregate(ctx):
    """the aggregate atom is only changed if the pair (function of the rule's aggregate, function of the atom) keeps the
    value -- min/min, max/max, sum/sum, sum+/sum+, and sum+ into sum only when every weight of the sum+ is a
    non-negative number --, every element of the rule's aggregate has a weight, the value variable occurs exactly
    twice in the rule, the replaced condition literal is positive, no other element's tuple potentially unifies with
    the replaced element's tuple, the weight of the replaced element is exactly the value argument, and (for sums)
    every other variable passed to the rule is global in the statement or part of the replaced element's tuple.
    The result keeps the atom's function and consists of the other elements and the unfolded ones."""
    m, ex = ctx.m, ctx.ex
    wf = wf_of(ctx)
    A = m.AST
    F = m.enums["AggregateFunction"][1]
    S = m.enums["Sign"][1]
    st = ctx.state()
    ln, at = m.lst_funcs("ast")
    rule, atom = ctx.sym("rule", "ast"), ctx.sym("atom", "ast")
    st.assume(wf.wf("Rule", rule.term, 1))
    head = A.Rule_head(rule.term)
    hsym = A.SymbolicAtom_symbol(A.Literal_atom(head))
    st.assume(A.is_Literal(head), A.is_SymbolicAtom(A.Literal_atom(head)), A.is_Function(hsym))
    st.assume(wf.wf("BodyAggregate", atom.term, 3))
    i0 = z3.Int("i!wfb")
    st.assume(z3.ForAll([i0], z3.Implies(z3.And(0 <= i0, i0 < ln(A.Rule_body(rule.term))), wf.wf("body_literal", at(A.Rule_body(rule.term), i0), 1)), patterns=[at(A.Rule_body(rule.term), i0)]))
    collect = install_collect_ast(ctx)
    eqv, bnd = _install_agg_analytics(ctx)
    U = _install_unifying(ctx)
    ex.functional_lists = True
    ex.resolve_ctors = True
    agg = at(collect("BodyAggregate")(rule.term), 0)
    st.assume(ln(collect("BodyAggregate")(rule.term)) == 1, wf.wf("BodyAggregate", agg, 2))
    lnS, atS = m.lst_funcs("str")
    # established by is_single before the call ("single_rule should already check this"): exactly one body aggregate
    # in the rule, with one `=` guard and no other bound
    st.assume(lnS(eqv(agg)) == 1, ln(bnd(agg)) == 0)
    # normal form (C05): #count has been rewritten to #sum+
    st.assume(A.BodyAggregate_function(agg) != F["Count"], A.BodyAggregate_function(atom.term) != F["Count"])
    ctx.assume_note("preconditions: the rule has exactly one body aggregate, with one `=` guard and no other bound, and its value variable is an argument of the head -- these are the postconditions of is_single, proved in C15.is_single (the call chain replace_single_rule_for_agg -> is_single -> replace_inside_agg -> inline_body_aggregate itself is not under contract); #count does not occur (normal form, C05)")
    # literal_predicate: uninterpreted list of signed predicates of a literal
    SP_ = ("rec", "SignedPredicate")
    LP = ex.ufunc("literal_predicates", [m.AST], m.sort(("list", SP_)))

    def lp(e, s, a, k):
        return [(s, s.alloc(ListObj(sv=SV(LP(a[0].term), ("list", SP_)))))]

    ex.overrides["ngo.utils.ast:literal_predicate"] = lp
    # what its code yields for a literal whose atom is a symbolic atom, a comparison or a boolean constant (the only
    # atoms of a literal in an aggregate element's condition): nothing, or the predicate of the Function symbol
    lnP0, atP0 = m.lst_funcs(SP_)
    c_, t0_ = z3.Const("c!lp", m.AST), z3.Int("t!lp")
    ca = A.Literal_atom(c_)
    csym = A.SymbolicAtom_symbol(ca)
    m.global_axioms.append(
        z3.ForAll(
            [c_, t0_],
            z3.Implies(
                z3.And(A.is_Literal(c_), z3.Or(A.is_SymbolicAtom(ca), A.is_Comparison(ca), A.is_BooleanConstant(ca)), 0 <= t0_, t0_ < lnP0(LP(c_))),
                z3.And(A.is_SymbolicAtom(ca), A.is_Function(csym), m.rec_acc("SignedPredicate", "pred")(atP0(LP(c_), t0_)) == m.rec_ctor("Predicate")(A.Function_name(csym), ln(A.Function_arguments(csym)))),
            ),
            patterns=[atP0(LP(c_), t0_)],
        )
    )
    ctx.assume_note("literal_predicate is uninterpreted (a list of signed predicates per literal); assumed from its code: for a literal over a symbolic atom / comparison / boolean constant every entry is the predicate of the atom's Function symbol")
    ie_, je_ = z3.Int("i!wfc"), z3.Int("j!wfc")
    cl_ = at(A.BodyAggregateElement_condition(at(A.BodyAggregate_elements(atom.term), ie_)), je_)
    st.assume(
        z3.ForAll(
            [ie_, je_],
            z3.Implies(
                z3.And(0 <= ie_, ie_ < ln(A.BodyAggregate_elements(atom.term)), 0 <= je_, je_ < ln(A.BodyAggregateElement_condition(at(A.BodyAggregate_elements(atom.term), ie_)))),
                z3.And(A.is_Literal(cl_), z3.Or(A.is_SymbolicAtom(A.Literal_atom(cl_)), A.is_Comparison(A.Literal_atom(cl_)), A.is_BooleanConstant(A.Literal_atom(cl_)))),
            ),
            patterns=[cl_],
        )
    )
    CN = ex.ufunc("compute_new_body_elements", [m.AST, m.AST, m.AST, m.AST, m.AST], m.sort(LA))

    def cnbe(e, s, a, k):
        args = [x for x in a if isinstance(x, SV)]
        return [(s, s.alloc(ListObj(sv=SV(CN(*[x.term for x in args[:5]]), LA))))]

    ex.overrides["ngo.inline:InlineTranslator.compute_new_body_elements"] = cnbe
    ctx.assume_note("compute_new_body_elements is used through its contract (C15.compute_new_body_elements): here an uninterpreted function of its five AST arguments")
    gv = ctx.sym("global_vars", SA)
    hargs = A.Function_arguments(hsym)
    value_var = A.Variable(atS(eqv(agg), 0))
    i = z3.Int("i!hv")
    # established by is_single: the value variable of the aggregate is an argument of the head
    st.assume(z3.Exists([i], z3.And(0 <= i, i < ln(hargs), at(hargs, i) == value_var)))

    def inv_hv(c):
        none_seen = z3.ForAll([i], z3.Implies(z3.And(0 <= i, i < c.k), at(hargs, i) != value_var))
        try:
            pos, hv_ = c.term("hv_pos", "int"), c.term("hv", "ast")
        except KeyError:  # before the first iteration the loop variables do not exist yet
            return [c.k == 0, none_seen]
        return [
            z3.Or(c.k == 0, z3.And(pos == c.k - 1, hv_ == at(hargs, c.k - 1))),
            z3.ForAll([i], z3.Implies(z3.And(0 <= i, i < c.k), at(hargs, i) != value_var)),
        ]

    ex.loop_specs[("ngo.inline:InlineTranslator.inline_body_aggregate", "in enumerate(hatom.symbol.arguments)")] = LoopSpec(inv=inv_hv, modifies={"hv_pos": "int", "hv": "ast"}, name="the value variable has not been seen yet")
    OE = A.BodyAggregate_elements(atom.term)
    hpred = m.rec_ctor("Predicate")(A.Function_name(hsym), ln(hargs))
    lnP, atP = m.lst_funcs(SP_)
    sp_pred = m.rec_acc("SignedPredicate", "pred")
    ii, jj, tt = z3.Int("i!re"), z3.Int("j!re"), z3.Int("t!re")

    def uses(c_):
        return z3.Exists([tt], z3.And(0 <= tt, tt < lnP(LP(c_)), sp_pred(atP(LP(c_), tt)) == hpred))

    def found(relem_, rcond_):
        """the replaced element / literal come from the atom and the literal mentions the head predicate"""
        e_ = at(OE, ii)
        return z3.Exists([ii, jj], z3.And(0 <= ii, ii < ln(OE), 0 <= jj, jj < ln(A.BodyAggregateElement_condition(e_)), relem_ == e_, rcond_ == at(A.BodyAggregateElement_condition(e_), jj), uses(rcond_)))

    def inv_re(c):
        try:
            re_, rc_ = c.term("replace_elem", "ast"), c.term("replace_cond", "ast")
        except KeyError:  # replace_cond does not exist before the first assignment; replace_elem is None then
            return [z3.BoolVal(True)]
        return [z3.Implies(re_ != m.NoneAST, found(re_, rc_))]

    for hdr in ("in atom.elements", "in elem.condition"):
        ex.loop_specs[("ngo.inline:InlineTranslator.inline_body_aggregate", hdr)] = LoopSpec(inv=inv_re, modifies={"replace_elem": "ast", "replace_cond": "ast"}, name="a replaced element comes from the atom")
    me = ctx.new_object(st, "InlineTranslator")
    res = ctx.call(st, ctx.method("ngo.inline", "InlineTranslator", "inline_body_aggregate", me), [rule, atom, Opaque("unique_vars"), gv])
    ok, bad = returned(res)
    ctx.cover("reach", st)
    no_raise(ctx, "no-raise", res, kind="assert")
    Sy = m.Sym
    fi, fo = A.BodyAggregate_function(agg), A.BodyAggregate_function(atom.term)
    IE = A.BodyAggregate_elements(agg)
    k, q, p_, t_ = z3.Int("k!ib"), z3.Int("q!ib"), z3.Int("p!ib"), z3.Int("t!ib")
    v = z3.Const("v!ib", m.AST)
    iel = at(IE, k)
    iw = at(A.BodyAggregateElement_terms(iel), 0)
    nonneg = z3.ForAll([k], z3.Implies(z3.And(0 <= k, k < ln(IE)), z3.And(ln(A.BodyAggregateElement_terms(iel)) > 0, A.is_SymbolicTerm(iw), Sy.is_SymNumber(A.SymbolicTerm_symbol(iw)), Sy.sym_number(A.SymbolicTerm_symbol(iw)) >= 0)))
    varsof = collect("Variable")

    def mem(y, lst):
        j_ = z3.Int(f"j!mem{fresh_id()}")
        return z3.Exists([j_], z3.And(0 <= j_, j_ < ln(lst), at(lst, j_) == y))

    n_changed = 0
    for n, (s, r) in enumerate(ok):
        if not isinstance(r, SV):
            ctx.oblige(f"result-is-an-atom#{n}", s, z3.BoolVal(False), kind="frame")
            continue
        if ex.valid(s, r.term == atom.term):
            ctx.oblige(f"frame-unchanged-atom-returned-as-is#{n}", s, r.term == atom.term, kind="frame", replay=FB15)
            continue
        n_changed += 1
        ch = r.term != atom.term
        relem = ex.to_term(s, ctx.local_var(s, "replace_elem"), "ast")
        rcond = ex.to_term(s, ctx.local_var(s, "replace_cond"), "ast")
        hv_pos = ex.to_term(s, ctx.local_var(s, "hv_pos"), "int")
        rterms = A.BodyAggregateElement_terms(relem)
        pargs = A.Function_arguments(A.SymbolicAtom_symbol(A.Literal_atom(rcond)))
        gates = [
            (
                "function-pair-keeps-the-value",
                z3.Or(
                    z3.And(fi == F["Min"], fo == F["Min"]),
                    z3.And(fi == F["Max"], fo == F["Max"]),
                    z3.And(fi == F["Sum"], fo == F["Sum"]),
                    z3.And(fi == F["SumPlus"], fo == F["SumPlus"]),
                    z3.And(fi == F["SumPlus"], fo == F["Sum"], nonneg),
                ),
            ),
            ("result-keeps-the-function-of-the-atom", A.BodyAggregate_function(r.term) == fo),
            ("every-element-has-a-weight", z3.ForAll([k], z3.Implies(z3.And(0 <= k, k < ln(IE)), ln(A.BodyAggregateElement_terms(iel)) > 0))),
            ("replaced-literal-is-a-positive-literal-of-the-atom", z3.And(found(relem, rcond), A.is_Literal(rcond), A.Literal_sign(rcond) == S["NoSign"])),
            ("no-other-tuple-unifies", z3.ForAll([q], z3.Implies(z3.And(0 <= q, q < ln(OE), at(OE, q) != relem), z3.Not(U(A.BodyAggregateElement_terms(at(OE, q)), rterms))))),
            ("weight-is-the-value-argument", z3.And(0 <= hv_pos, hv_pos < ln(hargs), at(hargs, hv_pos) == value_var, ln(rterms) > 0, at(rterms, 0) == at(pargs, hv_pos))),
            (
                "passed-variables-are-global-or-in-the-tuple",
                z3.Implies(
                    z3.And(fo != F["Min"], fo != F["Max"]),
                    z3.ForAll(
                        [p_, v],
                        z3.Implies(
                            z3.And(0 <= p_, p_ < ln(pargs), p_ != hv_pos, mem(v, varsof(at(pargs, p_)))),
                            z3.Or(z3.Select(gv.term, v), z3.Exists([t_], z3.And(1 <= t_, t_ < ln(rterms), mem(v, varsof(at(rterms, t_)))))),
                        ),
                    ),
                ),
            ),
        ]
        for nm, g in gates:
            ctx.oblige(f"gate-{nm}#{n}", s, z3.Implies(ch, g), replay=FB15)
        allv = varsof(rule.term)
        sums = [e for e in s.log if e[0] == "sum" and e[2].eq(ln(allv))]
        if len(sums) == 1:
            _, sres, sn, sk, sval = sums[0]
            ctx.oblige(
                f"gate-value-variable-used-exactly-twice#{n}",
                s,
                z3.Implies(ch, z3.And(sres.term == 2, z3.ForAll([sk], z3.Implies(z3.And(0 <= sk, sk < sn), sval == z3.If(at(allv, sk) == value_var, 1, 0))))),
                replay=FB15,
            )
        else:
            ctx.oblige(f"gate-value-variable-used-exactly-twice#{n}", s, z3.Not(ch), replay=FB15)
        # shape: the other elements, then the unfolded ones
        rest = ex.B.without_term(s, SV(OE, LA), SV(relem, "ast"), "ast")
        newel = CN(rule.term, rcond, relem, agg, atom.term)
        RE = A.BodyAggregate_elements(r.term)
        ctx.oblige(
            f"shape-other-elements-then-unfolded-elements#{n}",
            s,
            z3.Implies(
                ch,
                z3.And(
                    A.is_BodyAggregate(r.term),
                    A.BodyAggregate_left_guard(r.term) == A.BodyAggregate_left_guard(atom.term),
                    A.BodyAggregate_right_guard(r.term) == A.BodyAggregate_right_guard(atom.term),
                    ln(RE) == ln(rest) + ln(newel),
                    z3.ForAll([q], z3.Implies(z3.And(0 <= q, q < ln(rest)), at(RE, q) == at(rest, q))),
                    z3.ForAll([q], z3.Implies(z3.And(0 <= q, q < ln(newel)), at(RE, ln(rest) + q) == at(newel, q))),
                ),
            ),
            replay=FB15,
        )
    ctx.cover("some-unfolding-path", [z3.BoolVal(n_changed > 0)])
    ctx.inputs.clear()


@unit("C15.is_single", "C15", "ngo.inline:InlineTranslator.is_single", fallback=FB15)
def is_single(ctx):
    """a statement is only reported as an unfoldable aggregate-defining rule (result = position of the value in the
    head) if it is a rule whose head is a positive atom over plain, pairwise distinct variables (as many distinct variables as arguments), its
    predicate is neither an input nor an
    output nor static, it is the only rule deriving that predicate, exactly one OTHER statement uses the predicate
    and does so without anonymous variables, the rule contains exactly one body aggregate, that aggregate has exactly
    one `=` guard and no other bound, and the head argument at the reported position is the variable bound by it.
    (These are the preconditions the contracts of inline_body_aggregate / inline_minimize rely on.)"""
    m, ex = ctx.m, ctx.ex
    wf = wf_of(ctx)
    A = m.AST
    S = m.enums["Sign"][1]
    st = ctx.state()
    ln, at = m.lst_funcs("ast")
    stm = ctx.sym("stm", "ast")
    st.assume(wf.wf("statement", stm.term, 3))
    collect = install_collect_ast(ctx)
    eqv, bnd = _install_agg_analytics(ctx)
    ex.functional_lists = True
    ex.resolve_ctors = True
    PRED = ("rec", "Predicate")
    inp_ref, inp = ctx.sym_list(st, "input_predicates", PRED)
    out_ref, outp = ctx.sym_list(st, "output_predicates", PRED)
    static = ex.ufunc("is_static", [m.sort(PRED)], z3.BoolSort())
    derive = ex.ufunc("rules_that_derive", [m.sort(PRED)], m.sort(LA))
    use = ex.ufunc("statements_that_use", [m.sort(PRED)], m.sort(LA))
    anon = ex.ufunc("has_anonymous_vars", [m.sort(PRED), m.sort(LA)], z3.BoolSort())

    def pred_of(a):
        return a[-1] if isinstance(a[-1], SV) else a[1]

    ex.overrides["ngo.dependency:DomainPredicates.is_static"] = lambda e, s, a, k: [(s, SV(static(e.to_term(s, a[1], PRED)), "bool"))]
    ex.overrides["ngo.dependency:RuleDependency.get_rules_that_derive"] = lambda e, s, a, k: [(s, s.alloc(ListObj(sv=SV(derive(e.to_term(s, a[1], PRED)), LA))))]
    ex.overrides["ngo.dependency:RuleDependency.get_statements_that_use"] = lambda e, s, a, k: [(s, s.alloc(ListObj(sv=SV(use(e.to_term(s, a[1], PRED)), LA))))]

    def hav(e, s, a, k):
        args = [x for x in a if not (isinstance(x, Ref) and isinstance(s.heap.get(x.id), Obj))]
        return [(s, SV(anon(e.to_term(s, args[0], PRED), e.to_term(s, args[1], LA)), "bool"))]

    ex.overrides["ngo.inline:InlineTranslator.has_anonymous_vars"] = hav
    p_, i_ = z3.Const("p!use", m.sort(PRED)), z3.Int("i!use")
    m.global_axioms.append(z3.ForAll([p_, i_], z3.Implies(z3.And(0 <= i_, i_ < ln(use(p_))), z3.Or(A.is_Rule(at(use(p_), i_)), A.is_Minimize(at(use(p_), i_)))), patterns=[at(use(p_), i_)]))
    ctx.assume_note("RuleDependency.get_rules_that_derive / get_statements_that_use, DomainPredicates.is_static and has_anonymous_vars are uninterpreted; assumed from RuleDependency.__init__: only rules and objective statements are recorded as users of a predicate")
    q0 = z3.Int("q!wfa")
    hargs0 = A.Function_arguments(A.SymbolicAtom_symbol(A.Literal_atom(A.Rule_head(stm.term))))
    # arguments of a function term are terms (never None): part of well-formedness, stated where the code needs it
    st.assume(z3.ForAll([q0], z3.Implies(z3.And(0 <= q0, q0 < ln(hargs0)), at(hargs0, q0) != m.NoneAST), patterns=[at(hargs0, q0)]))
    dp = ctx.new_object(st, "DomainPredicates")
    rdp = ctx.new_object(st, "RuleDependency")
    me = ctx.new_object(st, "InlineTranslator", input_predicates=inp_ref, output_predicates=out_ref, domain_predicates=dp)
    res = ctx.call(st, ctx.method("ngo.inline", "InlineTranslator", "is_single", me), [stm, rdp])
    ok, bad = returned(res)
    ctx.cover("reach", st)
    no_raise(ctx, "no-raise", res, kind="assert")
    head = A.Rule_head(stm.term)
    hsym = A.SymbolicAtom_symbol(A.Literal_atom(head))
    hargs = A.Function_arguments(hsym)
    hpred = m.rec_ctor("Predicate")(A.Function_name(hsym), ln(hargs))
    lnP, atP = m.lst_funcs(PRED)
    lnS, atS = m.lst_funcs("str")
    aggs = collect("BodyAggregate")(stm.term)
    agg = at(aggs, 0)
    q = z3.Int("q!is")
    n_pos = 0
    for n, (s, r) in enumerate(ok):
        if r is None:
            continue
        n_pos += 1
        rt = ex.to_term(s, r, "int")
        posts = [
            ("rule-with-a-positive-atom-over-variables-as-head", z3.And(A.is_Rule(stm.term), A.is_Literal(head), A.Literal_sign(head) == S["NoSign"], A.is_SymbolicAtom(A.Literal_atom(head)), A.is_Function(hsym), z3.ForAll([q], z3.Implies(z3.And(0 <= q, q < ln(hargs)), A.is_Variable(at(hargs, q)))))),
            ("head-variables-pairwise-distinct", ex.ufunc("distinct_count_ast", [m.sort(LA)], z3.IntSort())(collect("Variable")(hsym)) == ln(hargs)),
            ("not-an-interface-or-static-predicate", z3.And(z3.Not(static(hpred)), z3.ForAll([q], z3.Implies(z3.And(0 <= q, q < lnP(inp.term)), atP(inp.term, q) != hpred)), z3.ForAll([q], z3.Implies(z3.And(0 <= q, q < lnP(outp.term)), atP(outp.term, q) != hpred)))),
            ("one-deriving-rule-one-other-user-without-anonymous-variables", z3.And(ln(derive(hpred)) == 1, ln(use(hpred)) == 1, at(use(hpred), 0) != stm.term, z3.Not(anon(hpred, z3.If(A.is_Rule(at(use(hpred), 0)), A.Rule_body(at(use(hpred), 0)), A.Minimize_body(at(use(hpred), 0))))))),
            ("one-body-aggregate-with-one-equality-guard", z3.And(ln(aggs) == 1, lnS(eqv(agg)) == 1, ln(bnd(agg)) == 0)),
            ("reported-position-holds-the-value-variable", z3.And(0 <= rt, rt < ln(hargs), at(hargs, rt) == A.Variable(atS(eqv(agg), 0)))),
        ]
        for nm, g in posts:
            ctx.oblige(f"post-{nm}#{n}", s, g, replay=FB15)
    ctx.cover("some-candidate-path", [z3.BoolVal(n_pos > 0)])
    ctx.inputs.clear()

