"""C08 -- cleanup deletes only literals and rules that cannot matter (ngo.cleanup)"""
from __future__ import annotations

import z3

from pyvc.state import fresh_id
from pyvc.unit import unit
from pyvc.values import SV, ListObj, Ref, SetObj

from .common import no_raise, returned, sem_of, wf_of

MAPPING = ("rec", "Mapping")


class AtomSem:
    """truth of predicate literals with anonymous variables, over Sem.
    Full(I, name, n, vals) : the ground atom name(vals[0..n-1]) is true in I  (vals : Array Int -> Val)
    axiom FullExt: Full only depends on vals[0..n-1]
    holds+(p(args), env) := exists u. Full(I, p, len(args), merge(args, env, u)),  merge_i = u[i] if args[i] is `_` else tval(args[i], env)
    """

    def __init__(self, ctx):
        self.ctx = ctx
        self.sem = sem_of(ctx)
        m = self.m = ctx.m
        sem = self.sem
        self.ValArr = z3.ArraySort(z3.IntSort(), sem.Val)
        self.Full = z3.Function("Full", sem.Interp, m.Str, z3.IntSort(), self.ValArr, z3.BoolSort())
        I = z3.Const("I!ax", sem.Interp)
        nm = z3.Const("nm!ax", m.Str)
        n = z3.Int("n!ax")
        f, g = z3.Consts("f!ax g!ax", self.ValArr)
        i = z3.Int("i!ax")
        ctx.sem_axioms.append(
            z3.ForAll(
                [I, nm, n, f, g],
                z3.Implies(
                    z3.And(self.Full(I, nm, n, f), z3.ForAll([i], z3.Implies(z3.And(0 <= i, i < n), f[i] == g[i]))),
                    self.Full(I, nm, n, g),
                ),
                patterns=[z3.MultiPattern(self.Full(I, nm, n, f), self.Full(I, nm, n, g))],
            )
        )
        ctx.assume_note("FullExt: truth of a ground atom depends only on its first n argument values (definition of atom_true over value arrays)")
        ctx.assume_note("anonymous variable `_` at top level of an atom argument is existential (positive / doubly negated atom) resp. its negation (negated atom); `_` nested inside function terms is treated like a named variable")

    def anon(self, t):
        A = self.m.AST
        return z3.And(A.is_Variable(t), A.Variable_name(t) == self.m.strlit("_"))

    def merge(self, args, env, u):
        m = self.m
        ln, at = m.lst_funcs("ast")
        i = z3.Int(f"i!mg{fresh_id()}")
        return z3.Lambda([i], z3.If(self.anon(at(args, i)), u[i], self.sem.tval(at(args, i), env)))

    def sym_of(self, lit):
        A = self.m.AST
        return A.SymbolicAtom_symbol(A.Literal_atom(lit))

    def full_of(self, lit, env, I, u):
        A = self.m.AST
        s = self.sym_of(lit)
        args = A.Function_arguments(s)
        return self.Full(I, A.Function_name(s), self.m.len(args, "ast"), self.merge(args, env, u))

    def is_pred_lit(self, lit):
        A = self.m.AST
        return z3.And(A.is_Literal(lit), A.is_SymbolicAtom(A.Literal_atom(lit)), A.is_Function(self.sym_of(lit)))


def valid_mapping(asem: AtomSem, mp, I):
    """valid(m): for every full argument tuple a of the head predicate true in I, the mapped body literal holds"""
    m = asem.m
    R = m.records
    vals = z3.Const(f"vals!vm{fresh_id()}", asem.ValArr)
    k = z3.Int(f"k!vm{fresh_id()}")
    head = m.rec_acc("Mapping", "head_pred")(mp)
    body = m.rec_acc("Mapping", "body_pred")(mp)
    vm = m.rec_acc("Mapping", "var_map")(mp)
    bpred = m.rec_acc("SignedPredicate", "pred")(body)
    bsign = m.rec_acc("SignedPredicate", "sign")(body)
    ln, at = m.lst_funcs("int")
    composed = z3.Lambda([k], vals[at(vm, k)])
    name = m.rec_acc("Predicate", "name")
    arity = m.rec_acc("Predicate", "arity")
    return z3.ForAll(
        [vals],
        z3.Implies(
            asem.Full(I, name(head), arity(head), vals),
            asem.sem.signed(bsign, asem.Full(I, name(bpred), arity(bpred), composed)),
        ),
        patterns=[asem.Full(I, name(head), arity(head), vals)],
    )


def wf_mapping(m, mp):
    k = z3.Int(f"k!wm{fresh_id()}")
    head = m.rec_acc("Mapping", "head_pred")(mp)
    body = m.rec_acc("Mapping", "body_pred")(mp)
    vm = m.rec_acc("Mapping", "var_map")(mp)
    bpred = m.rec_acc("SignedPredicate", "pred")(body)
    ln, at = m.lst_funcs("int")
    arity = m.rec_acc("Predicate", "arity")
    return z3.And(
        ln(vm) == arity(bpred),
        arity(head) >= 0,
        z3.ForAll([k], z3.Implies(z3.And(0 <= k, k < ln(vm)), z3.And(0 <= at(vm, k), at(vm, k) < arity(head))), patterns=[at(vm, k)]),
    )


def mappings_invariant(asem, slist, I):
    m = asem.m
    ln, at = m.lst_funcs(MAPPING)
    i = z3.Int(f"i!inv{fresh_id()}")
    e = at(slist.term, i)
    return z3.ForAll([i], z3.Implies(z3.And(0 <= i, i < ln(slist.term)), z3.And(wf_mapping(m, e), valid_mapping(asem, e, I))), patterns=[e])


@unit("C08.superseeded", "C08", "ngo.cleanup:CleanupTranslator._superseeded")
def superseeded(ctx):
    """_superseeded(lhs, rhs) == True  =>  in every interpretation in which all recorded mappings are valid,
    and for every variable assignment, lhs holds implies rhs holds (so deleting rhs next to lhs is sound).
    In particular a negative literal is never implied by the positive atom and argument positions are respected."""
    asem = AtomSem(ctx)
    sem, wf, m = asem.sem, wf_of(ctx), ctx.m
    A = m.AST
    S = m.enums["Sign"][1]
    lhs, rhs = ctx.sym("lhs", "ast"), ctx.sym("rhs", "ast")
    st = ctx.state()
    st.assume(wf.wf("body_literal", lhs.term, 3), wf.wf("body_literal", rhs.term, 3))
    sref, slist, sset = ctx.sym_set_enum(st, "superseeds", MAPPING)
    I = z3.Const("I", sem.Interp)
    env = z3.Const("env", sem.Env)
    # representation invariant of self.superseeds (established by the _find_superseeded / transitive_closure units)
    st.assume(mappings_invariant(asem, slist, I))
    me = ctx.new_object(st, "CleanupTranslator", superseeds=sref, input_predicates=st.alloc(ListObj(items=())))
    res = ctx.call(st, ctx.method("ngo.cleanup", "CleanupTranslator", "_superseeded", me), [lhs, rhs])
    ok, bad = returned(res)
    ctx.cover("reach", st)
    u_l = z3.Const("u_l", asem.ValArr)
    n_true = 0
    for i, (s, r) in enumerate(ok):
        t = ctx.ex.truth(s, r)
        if t is False:
            continue
        n_true += 1
        t = ctx.ex.as_z3_bool(t)
        # lhs holds (lhs is a positive predicate literal on every True path; u_l is the witness for its `_`)
        lhs_holds = z3.And(asem.is_pred_lit(lhs.term), A.Literal_sign(lhs.term) == S["NoSign"], asem.full_of(lhs.term, env, I, u_l))
        ML = asem.merge(A.Function_arguments(asem.sym_of(lhs.term)), env, u_l)
        # candidate witnesses for the `_` of rhs: the lhs values themselves, or the lhs values permuted by a mapping
        k = z3.Int(f"k!w{fresh_id()}")
        mq = z3.Const(f"m!w{fresh_id()}", m.sort(MAPPING))
        vm = m.rec_acc("Mapping", "var_map")(mq)
        at_i = m.lst_funcs("int")[1]
        W2 = z3.Lambda([k], ML[at_i(vm, k)])
        u_r = z3.Const(f"u_r!{fresh_id()}", asem.ValArr)
        pos_goal = z3.Or(asem.full_of(rhs.term, env, I, ML), z3.Exists([mq], z3.And(z3.Select(sset.term, mq), asem.full_of(rhs.term, env, I, W2))))
        neg_goal = z3.ForAll([u_r], z3.Not(asem.full_of(rhs.term, env, I, u_r)))
        rhs_holds = z3.And(asem.is_pred_lit(rhs.term), z3.If(A.Literal_sign(rhs.term) == S["Negation"], neg_goal, pos_goal))
        rargs = A.Function_arguments(asem.sym_of(rhs.term))
        hints = [z3.And(m.len(rargs, "ast") == 1, asem.anon(m.at(rargs, 0, "ast")))]
        ctx.oblige(f"post#{i}", s, z3.Implies(z3.And(t, lhs_holds), rhs_holds), replay={"mirror": "superseeded"}, hints=hints)
    ctx.cover("some-true-path", [z3.BoolVal(n_true > 0)])
    no_raise(ctx, "no-raise", res, kind="assert")
