"""C08 -- cleanup deletes only literals and rules that cannot matter (ngo.cleanup)"""
from __future__ import annotations

import z3

from pyvc.state import fresh_id
from pyvc.unit import unit
from pyvc.values import SV, ListObj, Ref, SetObj

from .common import no_raise, returned, sem_of, wf_of

MAPPING = ("rec", "Mapping")


class AtomSem:
    """truth of predicate literals with anonymous variables, over Sem.
    Full(I, name, n, vals) : the ground atom name(vals[0..n-1]) is true in I  (vals : Array Int -> Val)
    axiom FullExt: Full only depends on vals[0..n-1]
    holds+(p(args), env) := exists u. Full(I, p, len(args), merge(args, env, u)),  merge_i = u[i] if args[i] is `_` else tval(args[i], env)
    """

    def __init__(self, ctx):
        self.ctx = ctx
        self.sem = sem_of(ctx)
        m = self.m = ctx.m
        sem = self.sem
        self.ValArr = z3.ArraySort(z3.IntSort(), sem.Val)
        self.Full = z3.Function("Full", sem.Interp, m.Str, z3.IntSort(), self.ValArr, z3.BoolSort())
        I = z3.Const("I!ax", sem.Interp)
        nm = z3.Const("nm!ax", m.Str)
        n = z3.Int("n!ax")
        f, g = z3.Consts("f!ax g!ax", self.ValArr)
        i = z3.Int("i!ax")
        ctx.sem_axioms.append(
            z3.ForAll(
                [I, nm, n, f, g],
                z3.Implies(
                    z3.And(self.Full(I, nm, n, f), z3.ForAll([i], z3.Implies(z3.And(0 <= i, i < n), f[i] == g[i]))),
                    self.Full(I, nm, n, g),
                ),
                patterns=[z3.MultiPattern(self.Full(I, nm, n, f), self.Full(I, nm, n, g))],
            )
        )
        ctx.assume_note("FullExt: truth of a ground atom depends only on its first n argument values (definition of atom_true over value arrays)")
        ctx.assume_note("anonymous variable `_` at top level of an atom argument is existential (positive / doubly negated atom) resp. its negation (negated atom); `_` nested inside function terms is treated like a named variable")

    def anon(self, t):
        A = self.m.AST
        return z3.And(A.is_Variable(t), A.Variable_name(t) == self.m.strlit("_"))

    def merge(self, args, env, u):
        m = self.m
        ln, at = m.lst_funcs("ast")
        i = z3.Int(f"i!mg{fresh_id()}")
        return z3.Lambda([i], z3.If(self.anon(at(args, i)), u[i], self.sem.tval(at(args, i), env)))

    def sym_of(self, lit):
        A = self.m.AST
        return A.SymbolicAtom_symbol(A.Literal_atom(lit))

    def full_of(self, lit, env, I, u):
        A = self.m.AST
        s = self.sym_of(lit)
        args = A.Function_arguments(s)
        return self.Full(I, A.Function_name(s), self.m.len(args, "ast"), self.merge(args, env, u))

    def is_pred_lit(self, lit):
        A = self.m.AST
        return z3.And(A.is_Literal(lit), A.is_SymbolicAtom(A.Literal_atom(lit)), A.is_Function(self.sym_of(lit)))


def valid_mapping(asem: AtomSem, mp, I):
    """valid(m): for every full argument tuple a of the head predicate true in I, the mapped body literal holds"""
    m = asem.m
    R = m.records
    vals = z3.Const(f"vals!vm{fresh_id()}", asem.ValArr)
    k = z3.Int(f"k!vm{fresh_id()}")
    head = m.rec_acc("Mapping", "head_pred")(mp)
    body = m.rec_acc("Mapping", "body_pred")(mp)
    vm = m.rec_acc("Mapping", "var_map")(mp)
    bpred = m.rec_acc("SignedPredicate", "pred")(body)
    bsign = m.rec_acc("SignedPredicate", "sign")(body)
    ln, at = m.lst_funcs("int")
    composed = z3.Lambda([k], vals[at(vm, k)])
    name = m.rec_acc("Predicate", "name")
    arity = m.rec_acc("Predicate", "arity")
    return z3.ForAll(
        [vals],
        z3.Implies(
            asem.Full(I, name(head), arity(head), vals),
            asem.sem.signed(bsign, asem.Full(I, name(bpred), arity(bpred), composed)),
        ),
        patterns=[asem.Full(I, name(head), arity(head), vals)],
    )


def wf_mapping(m, mp):
    k = z3.Int(f"k!wm{fresh_id()}")
    head = m.rec_acc("Mapping", "head_pred")(mp)
    body = m.rec_acc("Mapping", "body_pred")(mp)
    vm = m.rec_acc("Mapping", "var_map")(mp)
    bpred = m.rec_acc("SignedPredicate", "pred")(body)
    ln, at = m.lst_funcs("int")
    arity = m.rec_acc("Predicate", "arity")
    return z3.And(
        ln(vm) == arity(bpred),
        arity(head) >= 0,
        z3.ForAll([k], z3.Implies(z3.And(0 <= k, k < ln(vm)), z3.And(0 <= at(vm, k), at(vm, k) < arity(head))), patterns=[at(vm, k)]),
    )


def mappings_invariant(asem, slist, I):
    m = asem.m
    ln, at = m.lst_funcs(MAPPING)
    i = z3.Int(f"i!inv{fresh_id()}")
    e = at(slist.term, i)
    return z3.ForAll([i], z3.Implies(z3.And(0 <= i, i < ln(slist.term)), z3.And(wf_mapping(m, e), valid_mapping(asem, e, I))), patterns=[e])


@unit("C08.superseeded", "C08", "ngo.cleanup:CleanupTranslator._superseeded", fallback={"mirror": "corpus", "trait": "cleanup"})
def superseeded(ctx):
    """_superseeded(lhs, rhs) == True  =>  in every interpretation in which all recorded mappings are valid,
    and for every variable assignment, lhs holds implies rhs holds (so deleting rhs next to lhs is sound).
    In particular a negative literal is never implied by the positive atom and argument positions are respected."""
    asem = AtomSem(ctx)
    sem, wf, m = asem.sem, wf_of(ctx), ctx.m
    A = m.AST
    S = m.enums["Sign"][1]
    lhs, rhs = ctx.sym("lhs", "ast"), ctx.sym("rhs", "ast")
    st = ctx.state()
    st.assume(wf.wf("body_literal", lhs.term, 3), wf.wf("body_literal", rhs.term, 3))
    sref, slist, sset = ctx.sym_set_enum(st, "superseeds", MAPPING)
    I = z3.Const("I", sem.Interp)
    env = z3.Const("env", sem.Env)
    # representation invariant of self.superseeds (established by the _find_superseeded / transitive_closure units)
    st.assume(mappings_invariant(asem, slist, I))
    me = ctx.new_object(st, "CleanupTranslator", superseeds=sref, input_predicates=st.alloc(ListObj(items=())))
    res = ctx.call(st, ctx.method("ngo.cleanup", "CleanupTranslator", "_superseeded", me), [lhs, rhs])
    ok, bad = returned(res)
    ctx.cover("reach", st)
    u_l = z3.Const("u_l", asem.ValArr)
    n_true = 0
    for i, (s, r) in enumerate(ok):
        t = ctx.ex.truth(s, r)
        if t is False:
            continue
        n_true += 1
        t = ctx.ex.as_z3_bool(t)
        # lhs holds (lhs is a positive predicate literal on every True path; u_l is the witness for its `_`)
        lhs_holds = z3.And(asem.is_pred_lit(lhs.term), A.Literal_sign(lhs.term) == S["NoSign"], asem.full_of(lhs.term, env, I, u_l))
        ML = asem.merge(A.Function_arguments(asem.sym_of(lhs.term)), env, u_l)
        # candidate witnesses for the `_` of rhs: the lhs values themselves, or the lhs values permuted by a mapping
        k = z3.Int(f"k!w{fresh_id()}")
        mq = z3.Const(f"m!w{fresh_id()}", m.sort(MAPPING))
        vm = m.rec_acc("Mapping", "var_map")(mq)
        at_i = m.lst_funcs("int")[1]
        W2 = z3.Lambda([k], ML[at_i(vm, k)])
        u_r = z3.Const(f"u_r!{fresh_id()}", asem.ValArr)
        pos_goal = z3.Or(asem.full_of(rhs.term, env, I, ML), z3.Exists([mq], z3.And(z3.Select(sset.term, mq), asem.full_of(rhs.term, env, I, W2))))
        neg_goal = z3.ForAll([u_r], z3.Not(asem.full_of(rhs.term, env, I, u_r)))
        rhs_holds = z3.And(asem.is_pred_lit(rhs.term), z3.If(A.Literal_sign(rhs.term) == S["Negation"], neg_goal, pos_goal))
        rargs = A.Function_arguments(asem.sym_of(rhs.term))
        hints = [z3.And(m.len(rargs, "ast") == 1, asem.anon(m.at(rargs, 0, "ast")))]
        ctx.oblige(f"post#{i}", s, z3.Implies(z3.And(t, lhs_holds), rhs_holds), replay={"mirror": "superseeded"}, hints=hints)
    ctx.cover("some-true-path", [z3.BoolVal(n_true > 0)])
    no_raise(ctx, "no-raise", res, kind="assert")


# ---------------------------------------------------------------------------------------------
# boolean constants
class BoolSem:
    """satisfaction of a body element as far as #true/#false are concerned:
    Literal(sign, BooleanConstant(v)) -> signed(sign, v);  ConditionalLiteral(l, []) -> l;  otherwise uninterpreted"""

    def __init__(self, ctx):
        self.sem = sem_of(ctx)
        m = self.m = ctx.m
        self.U = z3.Function("holds_u", m.AST, self.sem.Env, self.sem.Interp, z3.BoolSort())

    def lit(self, x, env, I):
        A = self.m.AST
        return z3.If(
            z3.And(A.is_Literal(x), A.is_BooleanConstant(A.Literal_atom(x))),
            self.sem.signed(A.Literal_sign(x), A.BooleanConstant_value(A.Literal_atom(x))),
            self.U(x, env, I),
        )

    def holds(self, x, env, I):
        A, m = self.m.AST, self.m
        return z3.If(
            z3.And(A.is_ConditionalLiteral(x), m.len(A.ConditionalLiteral_condition(x), "ast") == 0),
            self.lit(A.ConditionalLiteral_literal(x), env, I),
            self.lit(x, env, I),
        )


def _bool_pred(fname, positive):
    @unit(f"C08.{fname}", "C08", f"ngo.cleanup:CleanupTranslator.{fname}")
    def _u(ctx):
        """true(x) => x is satisfied by every interpretation and assignment; false(x) => by none"""
        bs = BoolSem(ctx)
        wf, m = wf_of(ctx), ctx.m
        x = ctx.sym("stm", "ast")
        st = ctx.state()
        st.assume(wf.wf("body_literal", x.term, 2))
        res = ctx.call(st, ctx.method("ngo.cleanup", "CleanupTranslator", fname, None), [x])
        ok, bad = returned(res)
        ctx.cover("reach", st)
        env, I = z3.Const("env", bs.sem.Env), z3.Const("I", bs.sem.Interp)
        for i, (s, r) in enumerate(ok):
            t = ctx.ex.as_z3_bool(ctx.ex.truth(s, r))
            h = bs.holds(x.term, env, I)
            ctx.oblige(f"post#{i}", s, z3.Implies(t, h if positive else z3.Not(h)), replay={"mirror": "bool_const", "fname": fname})
        no_raise(ctx, "no-raise", res)


_bool_pred("true", True)
_bool_pred("false", False)


def _all_hold(bs, m, lst_term, env, I):
    ln, at = m.lst_funcs("ast")
    i = z3.Int(f"i!ah{fresh_id()}")
    return z3.ForAll([i], z3.Implies(z3.And(0 <= i, i < ln(lst_term)), bs.holds(at(lst_term, i), env, I)), patterns=[at(lst_term, i)])


def _wf_list(ctx, st, sv, kind, depth=2):
    wf, m = wf_of(ctx), ctx.m
    ln, at = m.lst_funcs("ast")
    i = z3.Int(f"i!wl{fresh_id()}")
    st.assume(z3.ForAll([i], z3.Implies(z3.And(0 <= i, i < ln(sv.term)), wf.wf(kind, at(sv.term, i), depth)), patterns=[at(sv.term, i)]))


@unit("C08.remove_true_literals", "C08", "ngo.cleanup:CleanupTranslator.remove_true_literals", fallback={"mirror": "corpus", "trait": "cleanup"})
def remove_true_literals(ctx):
    """the conjunction of the returned literals is equivalent to the conjunction of the given ones,
    and the result only contains given literals (#true is neutral, nothing else is dropped)"""
    bs = BoolSem(ctx)
    m = ctx.m
    st = ctx.state()
    lits = ctx.sym("lits", ("list", "ast"))
    _wf_list(ctx, st, lits, "body_literal")
    res = ctx.call(st, ctx.method("ngo.cleanup", "CleanupTranslator", "remove_true_literals", None), [lits])
    ok, bad = returned(res)
    ctx.cover("reach", st)
    env, I = z3.Const("env", bs.sem.Env), z3.Const("I", bs.sem.Interp)
    ln, at = m.lst_funcs("ast")
    for n, (s, r) in enumerate(ok):
        rt = ctx.ex.to_term(s, r, ("list", "ast"))
        ctx.oblige(f"post-equiv#{n}", s, _all_hold(bs, m, lits.term, env, I) == _all_hold(bs, m, rt, env, I), replay={"mirror": "remove_true_literals"})
        j, k = z3.Int("j!sub"), z3.Int("k!sub")
        ctx.oblige(
            f"post-sublist#{n}",
            s,
            z3.ForAll([j], z3.Implies(z3.And(0 <= j, j < ln(rt)), z3.Exists([k], z3.And(0 <= k, k < ln(lits.term), at(lits.term, k) == at(rt, j))))),
            kind="frame",
            replay={"mirror": "remove_true_literals"},
        )
    no_raise(ctx, "no-raise", res)


@unit("C08.contains_false", "C08", "ngo.cleanup:CleanupTranslator.contains_false", fallback={"mirror": "corpus", "trait": "cleanup"})
def contains_false(ctx):
    """contains_false(lits) => the conjunction of lits is unsatisfiable (so dropping the statement / element is sound)"""
    bs = BoolSem(ctx)
    m = ctx.m
    st = ctx.state()
    lits = ctx.sym("lits", ("list", "ast"))
    _wf_list(ctx, st, lits, "body_literal")
    res = ctx.call(st, ctx.method("ngo.cleanup", "CleanupTranslator", "contains_false", None), [lits])
    ok, bad = returned(res)
    ctx.cover("reach", st)
    env, I = z3.Const("env", bs.sem.Env), z3.Const("I", bs.sem.Interp)
    for n, (s, r) in enumerate(ok):
        t = ctx.ex.as_z3_bool(ctx.ex.truth(s, r))
        ctx.oblige(f"post#{n}", s, z3.Implies(t, z3.Not(_all_hold(bs, m, lits.term, env, I))), replay={"mirror": "contains_false"})
    no_raise(ctx, "no-raise", res)


# ---------------------------------------------------------------------------------------------
from pyvc.loops import LoopSpec  # noqa: E402


@unit("C08.create_mappings", "C08", "ngo.cleanup:CleanupTranslator._create_mappings", fallback={"mirror": "corpus", "trait": "cleanup"})
def create_mappings(ctx):
    """every mapping yielded for a head symbol has a witness literal c among the given body literals: a predicate
    literal with the mapping's sign/predicate, as many positions as c has arguments, and c.args[k] == head.args[var_map[k]]
    for every k ('argument positions are respected'); positions are in range of the head's arity"""
    m, ex = ctx.m, ctx.ex
    wf = wf_of(ctx)
    A = m.AST
    st = ctx.state()
    head = ctx.sym("head_symbol", "ast")
    st.assume(wf.wf("Function", head.term, 1))
    lits_ref, lits = ctx.sym_list(st, "body_lits", "ast")
    _wf_list(ctx, st, lits, "literal", 3)
    hargs = A.Function_arguments(head.term)
    ln, at = m.lst_funcs("ast")
    lnI, atI = m.lst_funcs("int")
    key = ("ngo.cleanup:CleanupTranslator._create_mappings", 1)

    def inv(c):
        vm = c.term("var_map", ("list", "int"))
        bargs = A.Function_arguments(c.term("body_symbol", "ast"))
        i = z3.Int(f"i!cm{fresh_id()}")
        kk = c.k
        return z3.And(
            lnI(vm) <= kk,
            lnI(vm) >= 0,
            z3.Implies(
                lnI(vm) == kk,
                z3.ForAll([i], z3.Implies(z3.And(0 <= i, i < kk), z3.And(0 <= atI(vm, i), atI(vm, i) < ln(hargs), at(hargs, atI(vm, i)) == at(bargs, i)))),
            ),
        )

    ex.loop_specs[key] = LoopSpec(inv=inv, modifies={"var_map": ("list", "int")}, name="positions of body arguments in the head")
    res = ctx.call(st, ctx.method("ngo.cleanup", "CleanupTranslator", "_create_mappings", None), [head, lits_ref])
    ok, bad = returned(res)
    ctx.cover("reach", st)
    no_raise(ctx, "no-raise", res)
    LM = ("list", MAPPING)
    lnM, atM = m.lst_funcs(MAPPING)
    j, c_i, k = z3.Int("j!cmq"), z3.Int("c!cmq"), z3.Int("k!cmq")
    for n, (s, r) in enumerate(ok):
        rt = ex.to_term(s, r, LM)
        mp = atM(rt, j)
        hp = m.rec_acc("Mapping", "head_pred")(mp)
        bp = m.rec_acc("Mapping", "body_pred")(mp)
        vm = m.rec_acc("Mapping", "var_map")(mp)
        c = at(lits.term, c_i)
        csym = A.SymbolicAtom_symbol(A.Literal_atom(c))
        cargs = A.Function_arguments(csym)
        witness = z3.Exists(
            [c_i],
            z3.And(
                0 <= c_i,
                c_i < ln(lits.term),
                A.is_Literal(c),
                A.is_SymbolicAtom(A.Literal_atom(c)),
                A.is_Function(csym),
                m.rec_acc("SignedPredicate", "sign")(bp) == A.Literal_sign(c),
                m.rec_acc("SignedPredicate", "pred")(bp) == m.rec_ctor("Predicate")(A.Function_name(csym), ln(cargs)),
                lnI(vm) == ln(cargs),
                z3.ForAll([k], z3.Implies(z3.And(0 <= k, k < lnI(vm)), z3.And(0 <= atI(vm, k), atI(vm, k) < ln(hargs), at(cargs, k) == at(hargs, atI(vm, k))))),
            ),
        )
        ctx.oblige(
            f"post-witness#{n}",
            s,
            z3.ForAll([j], z3.Implies(z3.And(0 <= j, j < lnM(rt)), z3.And(hp == m.rec_ctor("Predicate")(A.Function_name(head.term), ln(hargs)), witness))),
            replay={"mirror": "create_mappings"},
        )
    ctx.adopt_engine_obligations()


@unit("C08.transitive_closure", "C08", "ngo.cleanup:CleanupTranslator.transitive_closure", fallback="transitive_closure")
def transitive_closure(ctx):
    """if every given mapping is well-formed and valid in an interpretation, so is every mapping of the closure
    (composition only through positive literals, positions composed as lhs.var_map[rhs.var_map[k]]), and the closure
    contains the given mappings"""
    asem = AtomSem(ctx)
    sem, m, ex = asem.sem, ctx.m, ctx.ex
    st = ctx.state()
    aref, alist, aset = ctx.sym_set_enum(st, "a", MAPPING)
    I = z3.Const("I", sem.Interp)
    st.assume(mappings_invariant(asem, alist, I))
    SM = ("set", MAPPING)
    mp = z3.Const("mp!tc", m.sort(MAPPING))

    def all_good(set_term):
        body = z3.Implies(z3.Select(set_term, mp), z3.And(wf_mapping(m, mp), valid_mapping(asem, mp, I)))
        if z3.is_const(set_term):
            return z3.ForAll([mp], body, patterns=[z3.Select(set_term, mp)])
        return z3.ForAll([mp], body)

    def subset(a_, b_):
        y = z3.Const(f"y!ss{fresh_id()}", m.sort(MAPPING))
        return z3.ForAll([y], z3.Implies(z3.Select(a_, y), z3.Select(b_, y)))

    def inv(c):
        cl = ex.to_term(c.st, c.var("closure"), SM)
        return z3.And(all_good(cl), subset(aset.term, cl))

    key = ("ngo.cleanup:CleanupTranslator.transitive_closure", 0)
    ex.loop_specs[key] = LoopSpec(inv=inv, modifies={"closure": SM, "new_relations": SM, "closure_until_now": SM}, name="closure so far is valid")
    res = ctx.call(st, ctx.method("ngo.cleanup", "CleanupTranslator", "transitive_closure", None), [aref])
    ok, bad = returned(res)
    ctx.cover("reach", st)
    no_raise(ctx, "no-raise", res)
    for n, (s, r) in enumerate(ok):
        rt = ex.to_term(s, r, SM)
        ctx.oblige(f"post-valid#{n}", s, all_good(rt), replay={"mirror": "transitive_closure"})
        ctx.oblige(f"post-contains-input#{n}", s, subset(aset.term, rt), replay={"mirror": "transitive_closure"})
    ctx.adopt_engine_obligations(source="property", replay={"mirror": "transitive_closure"})
    ctx.assume_note("termination of transitive_closure's fixpoint loop is not proved")


@unit("C08.remove_superseed_from_list", "C08", "ngo.cleanup:CleanupTranslator._remove_superseed_from_list", fallback={"mirror": "corpus", "trait": "cleanup"})
def remove_superseed_from_list(ctx):
    """given that _superseeded(l, r) only answers True when l holding implies r holding (C08.superseeded), the list left
    by _remove_superseed_from_list only contains literals of the original list and its conjunction is equivalent to
    the conjunction of the original list (for every interpretation / assignment); the flag tells whether it changed"""
    sem = sem_of(ctx)
    m, ex = ctx.m, ctx.ex
    wf = wf_of(ctx)
    st = ctx.state()
    body_ref, body0 = ctx.sym_list(st, "body", "ast")
    _wf_list(ctx, st, body0, "body_literal", 1)
    env, I = z3.Const("env", sem.Env), z3.Const("I", sem.Interp)
    H = z3.Function("holds_lit", m.AST, sem.Env, sem.Interp, z3.BoolSort())
    sup = z3.Function("superseeded", m.AST, m.AST, z3.BoolSort())

    def superseeded_contract(e, s, a, k):
        l, r = a[1], a[2]
        b = sup(l.term, r.term)
        s.assume(z3.Implies(b, z3.Implies(H(l.term, env, I), H(r.term, env, I))))
        return [(s, SV(b, "bool"))]

    ex.overrides["ngo.cleanup:CleanupTranslator._superseeded"] = superseeded_contract
    ctx.assume_note("_superseeded is used through its contract (result => lhs holds implies rhs holds), proved in C08.superseeded for predicate literals")
    ln, at = m.lst_funcs("ast")
    LA = ("list", "ast")

    def all_hold(t):
        i = z3.Int(f"i!ah{fresh_id()}")
        return z3.ForAll([i], z3.Implies(z3.And(0 <= i, i < ln(t)), H(at(t, i), env, I)), patterns=[at(t, i)])

    def sub(t, t0):
        i, j = z3.Int(f"i!sb{fresh_id()}"), z3.Int(f"j!sb{fresh_id()}")
        return z3.ForAll([i], z3.Implies(z3.And(0 <= i, i < ln(t)), z3.Exists([j], z3.And(0 <= j, j < ln(t0), at(t0, j) == at(t, i)))), patterns=[at(t, i)])

    def inv(c):
        cur = ex.to_term(c.st, c.var("body"), LA)
        upd = ex.as_z3_bool(ex.truth(c.st, c.var("updated")))
        return [
            sub(cur, body0.term),
            z3.Implies(all_hold(body0.term), all_hold(cur)),
            z3.Implies(all_hold(cur), all_hold(body0.term)),
            z3.Implies(z3.Not(upd), cur == body0.term),
            ln(cur) <= ln(body0.term),
        ]

    def variant(c):
        cur = ex.to_term(c.st, c.var("body"), LA)
        fix = ex.as_z3_bool(ex.truth(c.st, c.var("fix")))
        return ln(cur) + z3.If(fix, 0, 1)

    key = ("ngo.cleanup:CleanupTranslator._remove_superseed_from_list", 0)
    ex.loop_specs[key] = LoopSpec(inv=inv, modifies={"body": LA, "fix": "bool", "updated": "bool"}, variant=None, name="removed literals are implied by remaining ones")
    me = ctx.new_object(st, "CleanupTranslator", superseeds=st.alloc(SetObj(items=())), input_predicates=st.alloc(ListObj(items=())))
    res = ctx.call(st, ctx.method("ngo.cleanup", "CleanupTranslator", "_remove_superseed_from_list", me), [body_ref])
    ok, bad = returned(res)
    ctx.cover("reach", st)
    no_raise(ctx, "no-raise", res)
    for n, (s, r) in enumerate(ok):
        cur = ex.to_term(s, body_ref, LA)
        ctx.oblige(f"post-equivalent#{n}", s, all_hold(cur) == all_hold(body0.term), replay={"mirror": "corpus", "trait": "cleanup"})
        ctx.oblige(f"post-sublist#{n}", s, sub(cur, body0.term), kind="frame", replay={"mirror": "corpus", "trait": "cleanup"})
        ctx.oblige(f"post-flag#{n}", s, z3.Implies(z3.Not(ex.as_z3_bool(ex.truth(s, r))), cur == body0.term), kind="frame", replay={"mirror": "corpus", "trait": "cleanup"})
    ctx.adopt_engine_obligations(source="property", replay={"mirror": "corpus", "trait": "cleanup"})
    ctx.inputs.clear()
