"""C19 -- the command line is the API (ngo.utils.parser, ngo.__main__, ngo.api gating)"""
from __future__ import annotations

import ast as pyast

import z3

from pyvc.loops import LoopSpec
from pyvc.unit import unit
from pyvc.values import SV, BagObj, ListObj, Obj, Opaque, Ref, Tup

from .common import no_raise, returned

TRAITS = ["minmax_chains", "symmetry", "duplication", "cleanup", "unused", "sum_chains", "math", "inline", "projection"]
TOKENS = ("all", "none", "default") + tuple(TRAITS)


def _module_list(ctx, st, module, name):
    v = ctx.ex.lookup_global(st, module, name)
    items = ctx.ex.B.concrete_items(st, v)
    return items


def _optimize_bool_params(ctx):
    mod = ctx.ex.load_module("ngo.api")
    for n in mod.body:
        if isinstance(n, pyast.FunctionDef) and n.name == "optimize":
            params = n.args.args
            defaults = n.args.defaults
            with_def = params[len(params) - len(defaults) :]
            out = {}
            for p, d in zip(with_def, defaults):
                if isinstance(d, pyast.Constant) and isinstance(d.value, bool):
                    out[p.arg] = d.value
            return [p.arg for p in params], out
    return [], {}


@unit("C19.constants", "C19", "ngo.utils.parser:<module>")
def constants(ctx):
    """ALL_OPTIONS is exactly the set of boolean keyword parameters of ngo.api.optimize (nine traits);
    DEFAULT_OPTIONS = ALL_OPTIONS minus duplication = the traits optimize enables by default"""
    st = ctx.state()
    allo = _module_list(ctx, st, "ngo.utils.parser", "ALL_OPTIONS")
    defo = _module_list(ctx, st, "ngo.utils.parser", "DEFAULT_OPTIONS")
    _params, bools = _optimize_bool_params(ctx)
    ok1 = allo is not None and sorted(allo) == sorted(bools) and len(set(allo)) == len(allo) == 9
    ok2 = defo is not None and sorted(defo) == sorted(set(allo or []) - {"duplication"}) and len(set(defo)) == len(defo)
    ok3 = defo is not None and sorted(defo) == sorted(k for k, v in bools.items() if v)
    ok4 = allo is not None and sorted(allo) == sorted(TRAITS)
    ctx.cover("reach", [])
    ctx.oblige("all-options-are-optimize-flags", [], z3.BoolVal(bool(ok1)), kind="post", replay={"mirror": "parser_constants"})
    ctx.oblige("default-is-all-but-duplication", [], z3.BoolVal(bool(ok2)), kind="post", replay={"mirror": "parser_constants"})
    ctx.oblige("default-matches-optimize-defaults", [], z3.BoolVal(bool(ok3)), kind="post", replay={"mirror": "parser_constants"})
    ctx.oblige("documented-nine-traits", [], z3.BoolVal(bool(ok4)), kind="post", replay={"mirror": "parser_constants"})
    ctx.inputs.clear()


def _bag(ctx, st, prefix):
    counts = tuple(z3.Int(f"{prefix}_{t}") for t in TOKENS)
    for c in counts:
        st.assume(c >= 0)
    for t, c in zip(TOKENS, counts):
        ctx.inputs[f"{prefix}_{t}"] = SV(c, "int")
    return st.alloc(BagObj(TOKENS, counts)), dict(zip(TOKENS, counts))


def _membership(ctx, s, v, name):
    """z3 Bool: name in v   (v: concrete list or bag)"""
    r = ctx.ex.B.contains(s, v, name)
    assert len(r) == 1
    return ctx.ex.as_z3_bool(ctx.ex.B._raw(r[0][1]))


@unit("C19.VerifyEnable", "C19", "ngo.utils.parser:VerifyEnable.__call__", fallback="verify_enable_bounded")
def verify_enable(ctx):
    """for every non-empty list of accepted --enable tokens (as a multiset): error iff `none` is combined with
    something; otherwise trait k is enabled iff  all in values or k in values or (default in values and k != duplication)"""
    st = ctx.state()
    vref, cnt = _bag(ctx, st, "n")
    st.assume(z3.Sum(*cnt.values()) >= 1)  # argparse nargs="+"
    key = ("ngo.utils.parser:VerifyEnable.__call__", 0)

    def inv(c):
        cur = c.st.heap[c.var("values").id]
        old = c.old_st.heap[c.old("values").id]
        conj = []
        for t, a, b in zip(TOKENS, cur.counts, old.counts):
            if t == "default":
                conj += [a >= 0, a <= b]
            else:
                conj.append(a == b)
        return z3.And(*conj)

    def variant(c):
        cur = c.st.heap[c.var("values").id]
        return cur.counts[TOKENS.index("default")]

    ctx.ex.loop_specs[key] = LoopSpec(inv=inv, modifies={"values": ("bag",)}, variant=variant, name="remove every `default`")
    me, parser, ns = Opaque("self"), Opaque("parser"), Opaque("namespace")
    f = ctx.method("ngo.utils.parser", "VerifyEnable", "__call__", me)
    res = ctx.call(st, f, [parser, ns, vref, Opaque("option_string")])
    ok, bad = returned(res)
    ctx.cover("reach", st)
    none_combined = z3.And(cnt["none"] > 0, z3.Sum(*cnt.values()) > 1)
    for i, (s, v) in enumerate(bad):
        good = v.exc == "ArgumentTypeError"
        ctx.oblige(f"error-only-when-none-combined#{i}", s, none_combined if good else z3.BoolVal(False), replay={"mirror": "verify_enable"})
    for i, (s, _v) in enumerate(ok):
        sets = [e for e in s.log if e[0] == "setattr"]
        ctx.oblige(f"no-error-implies-legal#{i}", s, z3.Not(none_combined), replay={"mirror": "verify_enable"})
        ctx.oblige(f"sets-enable-once#{i}", s, z3.BoolVal(len(sets) == 1 and sets[0][1] == ns), kind="frame", replay={"mirror": "verify_enable"})
        if len(sets) != 1:
            continue
        val = sets[0][3]
        for k in TRAITS:
            want = z3.Or(cnt["all"] > 0, cnt[k] > 0, z3.And(cnt["default"] > 0, z3.BoolVal(k != "duplication")))
            ctx.oblige(f"expansion[{k}]#{i}", s, _membership(ctx, s, val, k) == want, replay={"mirror": "verify_enable"})
    ctx.cover("error-path-exists", [z3.BoolVal(len(bad) > 0)])


@unit("C19.main", "C19", "ngo.__main__:main", fallback="main_wiring")
def main_wiring(ctx):
    """main(): optimize is called exactly once with the parsed program, IN/OUT = auto-detected iff the option is
    `auto` (`""` -> []), each of the nine keywords bound to `<its own name> in args.enable`; stdout receives exactly
    the statements optimize returned, in order, and nothing else; logging goes to stderr"""
    ex, m = ctx.ex, ctx.m
    LP = ("list", ("rec", "Predicate"))
    out = []
    for in_kind in ("auto", "list"):
        for out_kind in ("auto", "empty", "list"):
            st = ctx.state()
            st.heap[0] = ListObj(items=())
            eref, cnt = _bag(ctx, st, "n")
            in_list = ctx.sym("in_list", LP)
            out_list = ctx.sym("out_list", LP)
            args = ctx.new_object(
                st,
                "Namespace",
                log=Opaque("args.log"),
                enable=eref,
                input_predicates="auto" if in_kind == "auto" else st.alloc(ListObj(sv=in_list)),
                output_predicates={"auto": "auto", "empty": "", "list": st.alloc(ListObj(sv=out_list))}[out_kind],
            )
            parser = Opaque("parser")
            ex.overrides["ngo.utils.parser:get_parser"] = lambda e, s, a, k: [(s, parser)]
            ex.opaque_handlers["parser.parse_args"] = lambda e, s, a, k, args=args: [(s, args)]
            adi = ex.ufunc("auto_detect_input", [m.sort(("list", "ast"))], m.sort(LP))
            ado = ex.ufunc("auto_detect_output", [m.sort(("list", "ast"))], m.sort(LP))
            ex.overrides["ngo.utils.globals:auto_detect_input"] = lambda e, s, a, k: [(s, s.alloc(ListObj(sv=SV(adi(e.to_term(s, a[0], ("list", "ast"))), LP))))]
            ex.overrides["ngo.utils.globals:auto_detect_output"] = lambda e, s, a, k: [(s, s.alloc(ListObj(sv=SV(ado(e.to_term(s, a[0], ("list", "ast"))), LP))))]

            def opt(e, s, a, k):
                s.log.append(("optimize", tuple(a), dict(k)))
                return [(s, s.alloc(ListObj(sv=e.fresh(s, "optimized", ("list", "ast")))))]

            ex.overrides["ngo.api:optimize"] = opt
            res = ctx.call(st, ctx.fn("ngo.__main__", "main"), [])
            ok, bad = returned(res)
            tag = f"{in_kind}-{out_kind}"
            ctx.cover(f"reach[{tag}]", st)
            no_raise(ctx, f"no-raise[{tag}]", res)
            for i, (s, _v) in enumerate(ok):
                calls = [e for e in s.log if e[0] == "optimize"]
                ctx.oblige(f"optimize-called-once[{tag}]#{i}", s, z3.BoolVal(len(calls) == 1), replay={"mirror": "main_wiring"})
                if len(calls) != 1:
                    continue
                _, a, kw = calls[0]
                parsed = [e for e in s.log if e[0] == "call" and e[1] == "clingo.parse_files"]
                files_ok = len(parsed) == 1 and ex.B.concrete_items(s, parsed[0][2][0]) == ["-"]
                ctx.oblige(f"reads-stdin[{tag}]#{i}", s, z3.BoolVal(bool(files_ok)), replay={"mirror": "main_wiring"})
                okshape = len(a) == 3 and set(kw) == set(TRAITS)
                ctx.oblige(f"optimize-signature[{tag}]#{i}", s, z3.BoolVal(okshape), replay={"mirror": "main_wiring"})
                if not okshape:
                    continue
                prg_t = ex.to_term(s, a[0], ("list", "ast"))
                # the program passed is what parse_files produced: a list consisting exactly of the parsed statements
                prg_parsed = [c for c in s.created if str(c).startswith("parsed!")]
                ln, at = m.lst_funcs("ast")
                j = z3.Int("j!p")
                same_prg = z3.And(ln(prg_t) == ln(prg_parsed[0]), z3.ForAll([j], z3.Implies(z3.And(0 <= j, j < ln(prg_t)), at(prg_t, j) == at(prg_parsed[0], j)))) if prg_parsed else z3.BoolVal(False)
                ctx.oblige(f"program-is-parsed-stdin[{tag}]#{i}", s, same_prg, replay={"mirror": "main_wiring"})
                in_t = ex.to_term(s, a[1], LP)
                out_t = ex.to_term(s, a[2], LP)
                want_in = adi(prg_t) if in_kind == "auto" else in_list.term
                ctx.oblige(f"input-predicates[{tag}]#{i}", s, in_t == want_in, replay={"mirror": "main_wiring"})
                lnp = m.lst_funcs(("rec", "Predicate"))[0]
                want_out = {"auto": out_t == ado(prg_t), "empty": lnp(out_t) == 0, "list": out_t == out_list.term}[out_kind]
                ctx.oblige(f"output-predicates[{tag}]#{i}", s, want_out, replay={"mirror": "main_wiring"})
                for k in TRAITS:
                    got = ex.as_z3_bool(ex.truth(s, kw[k]))
                    ctx.oblige(f"flag[{k}][{tag}]#{i}", s, got == (cnt[k] > 0), replay={"mirror": "main_wiring"})
                # stdout
                result = [c for c in s.created if str(c).startswith("optimized!")]
                so = ex.to_term(s, Ref(0), ("list", "str")) if (s.heap[0].sv is not None or s.heap[0].items) else None
                str_of = ex.ufunc("str_of_ast", [m.AST], m.Str)
                lns, ats = m.lst_funcs("str")
                if so is None:
                    ctx.oblige(f"stdout[{tag}]#{i}", s, ln(result[0]) == 0, replay={"mirror": "main_wiring"})
                else:
                    ctx.oblige(
                        f"stdout[{tag}]#{i}",
                        s,
                        z3.And(lns(so) == ln(result[0]), z3.ForAll([j], z3.Implies(z3.And(0 <= j, j < lns(so)), ats(so, j) == str_of(at(result[0], j))))),
                        replay={"mirror": "main_wiring"},
                    )
                # logging configured on stderr before parsing/optimising
                cfg = [ix for ix, e in enumerate(s.log) if e[0] == "call" and e[1] == "logging.basicConfig"]
                first_other = min([ix for ix, e in enumerate(s.log) if e[0] in ("optimize",) or (e[0] == "call" and e[1] == "clingo.parse_files")] or [10**6])
                stream_ok = bool(cfg) and dict(s.log[cfg[0]][3]).get("stream") == Opaque("sys.stderr") and cfg[0] < first_other
                ctx.oblige(f"logging-to-stderr[{tag}]#{i}", s, z3.BoolVal(bool(stream_ok)), kind="frame", replay={"mirror": "main_wiring"})
    ctx.inputs = {k: v for k, v in ctx.inputs.items() if k.startswith("n_")}


@unit("C19.stdout-frame", "C19", "ngo/*:<scan>")
def stdout_frame(ctx):
    """no function of the package other than ngo.__main__.main writes to stdout (print / sys.stdout)"""
    import os

    root = os.path.join(ctx.ex.src_root, "ngo")
    offenders = []
    for dp, _dn, fn in os.walk(root):
        for f in fn:
            if not f.endswith(".py"):
                continue
            path = os.path.join(dp, f)
            tree = pyast.parse(open(path, encoding="utf8").read())
            for n in pyast.walk(tree):
                if isinstance(n, pyast.Call) and isinstance(n.func, pyast.Name) and n.func.id == "print":
                    if not path.endswith("__main__.py"):
                        offenders.append(f"{path}:{n.lineno}")
                if isinstance(n, pyast.Attribute) and n.attr == "stdout":
                    offenders.append(f"{path}:{n.lineno}")
    ctx.cover("reach", [])
    ctx.oblige("no-stdout-writes-outside-main", [], z3.BoolVal(not offenders), kind="frame", replay={"mirror": "stdout_scan"})
    ctx.assume_note("stdout frame is a syntactic scan for print( / .stdout in src/ngo (dynamic writes via os.write etc. are not searched)")


PASSES = [
    # (flag, module, class, constructor argument kinds)
    ("cleanup", "ngo.cleanup", "CleanupTranslator", ["IN"]),
    ("unused", "ngo.unused", "UnusedTranslator", ["PRG", "IN", "OUT"]),
    ("duplication", "ngo.literal_duplication", "LiteralDuplicationTranslator", ["PRG", "IN"]),
    ("symmetry", "ngo.symmetry", "SymmetryTranslator", ["PRG", "IN"]),
    ("minmax_chains", "ngo.minmax_aggregates", "MinMaxAggregator", ["PRG", "IN"]),
    ("sum_chains", "ngo.sum_aggregates", "SumAggregator", ["PRG", "IN"]),
    ("math", "ngo.math_simplification", "MathSimplification", ["PRG"]),
    ("inline", "ngo.inline", "InlineTranslator", ["PRG", "IN", "OUT"]),
    ("projection", "ngo.projection", "ProjectionTranslator", ["PRG", "IN"]),
]


def optimize_gating(ctx, flags_fixed=None, prefix=""):
    """symbolic execution of ngo.api.optimize with every pass body uninterpreted (ghost-logged).
    One arbitrary round of the fixpoint loop is checked through the loop invariant."""
    ex, m = ctx.ex, ctx.m
    LA = ("list", "ast")
    LP = ("list", ("rec", "Predicate"))
    st = ctx.state()
    prg = ctx.sym("prg", LA)
    IN = ctx.sym("input_predicates", LP)
    OUT = ctx.sym("output_predicates", LP)
    in_ref, out_ref = st.alloc(ListObj(sv=IN)), st.alloc(ListObj(sv=OUT))
    flags = {}
    for fl, *_ in PASSES:
        flags[fl] = ctx.sym("flag_" + fl, "bool") if flags_fixed is None else flags_fixed[fl]

    def ufn(name):
        f = ex.ufunc(name, [m.sort(LA)], m.sort(LA))

        def h(e, s, a, k):
            t = e.to_term(s, a[0], LA)
            s.log.append((name, t))
            return [(s, s.alloc(ListObj(sv=SV(f(t), LA))))]

        return h

    ex.overrides["ngo.normalize:preprocess"] = ufn("preprocess")
    ex.overrides["ngo.normalize:postprocess"] = ufn("postprocess")
    ex.overrides["ngo.normalize:exline_arithmetic"] = ufn("exline_arithmetic")
    for fl, mod, cls, kinds in PASSES:
        def init(e, s, a, k, cls=cls):
            s.log.append(("init", cls, a[0], tuple(a[1:]), dict(k)))
            return [(s, None)]

        def execute(e, s, a, k, cls=cls):
            f = e.ufunc("execute_" + cls, [m.sort(LA)], m.sort(LA))
            t = e.to_term(s, a[1], LA)
            s.log.append(("execute", cls, a[0], t))
            return [(s, s.alloc(ListObj(sv=SV(f(t), LA))))]

        ex.overrides[f"{mod}:{cls}.__init__"] = init
        ex.overrides[f"{mod}:{cls}.execute"] = execute

    key = ("ngo.api:optimize", 0)
    violations = []

    def check_round(c):
        """the events of one round (since the loop head) are exactly: for each enabled pass, in the fixed order,
        its construction from the *current* program and IN/OUT in the right positions, then execute on the current
        program; finally exline_arithmetic on the current program"""
        log = c.st.log[len(c.old_st.log) :]
        if not log:
            return z3.BoolVal(True)
        conds = []
        cur = ex.to_term(c.old_st, ex.lookup(c.old_st, c.fr, "input_"), LA) if False else None
        # current program at loop head = the havocked input_ (recorded by the spec below)
        cur = round_start["t"]
        pos = 0
        ok = True
        for fl, mod, cls, kinds in PASSES:
            f = flags[fl]
            fval = f if isinstance(f, bool) else None
            enabled_here = pos + 1 < len(log) and log[pos][0] == "init" and log[pos][1] == cls
            if fval is False or (fval is None and not enabled_here):
                # path on which this pass did not run: the path condition must say the flag is false
                if fval is None:
                    conds.append(z3.Not(f.term))
                continue
            if not enabled_here:
                ok = False
                break
            if fval is None:
                conds.append(f.term)
            _, _cls, obj, a, kw = log[pos]
            e2 = log[pos + 1]
            if not (e2[0] == "execute" and e2[1] == cls and e2[2] == obj) or kw:
                ok = False
                break
            if len(a) != len(kinds):
                ok = False
                break
            for val, kd in zip(a, kinds):
                if kd == "PRG":
                    conds.append(ex.to_term(c.st, val, LA) == cur)
                elif kd == "IN":
                    conds.append(ex.as_z3_bool(val == in_ref))
                else:
                    conds.append(ex.as_z3_bool(val == out_ref))
            conds.append(e2[3] == cur)
            cur = ex.ufunc("execute_" + cls, [m.sort(LA)], m.sort(LA))(cur)
            pos += 2
        if ok:
            ok = pos + 1 == len(log) and log[pos][0] == "exline_arithmetic"
            if ok:
                conds.append(log[pos][1] == cur)
                conds.append(ex.to_term(c.st, c.var("input_"), LA) == ex.ufunc("exline_arithmetic", [m.sort(LA)], m.sort(LA))(cur))
        if not ok:
            return z3.BoolVal(False)
        return z3.And(*conds) if conds else z3.BoolVal(True)

    round_start = {}

    class Spec(LoopSpec):
        pass

    spec = LoopSpec(inv=check_round, modifies={"input_": LA, "old": LA}, name="one round = enabled passes in order")
    ex.loop_specs[key] = spec
    # capture the havocked program at the loop head: wrap havoc
    orig_havoc = ex.L.havoc

    def havoc(s, fr, sp):
        orig_havoc(s, fr, sp)
        if sp is spec:
            round_start["t"] = ex.to_term(s, ex.lookup(s, fr, "input_"), LA)

    ex.L.havoc = havoc
    res = ctx.call(st, ctx.fn("ngo.api", "optimize"), [st.alloc(ListObj(sv=prg)), in_ref, out_ref], {k: v for k, v in flags.items()})
    ex.L.havoc = orig_havoc
    ok, bad = returned(res)
    ctx.cover(prefix + "reach", st)
    no_raise(ctx, prefix + "no-raise", res)
    pre = ex.ufunc("preprocess", [m.sort(LA)], m.sort(LA))
    post = ex.ufunc("postprocess", [m.sort(LA)], m.sort(LA))
    for i, (s, v) in enumerate(ok):
        # the returned program is postprocess(of the program at the last loop head ... ) and preprocess was applied to prg first
        pres = [e for e in s.log if e[0] == "preprocess"]
        posts = [e for e in s.log if e[0] == "postprocess"]
        shape = len(pres) == 1 and len(posts) == 1 and s.log[0][0] == "preprocess" and s.log[-1][0] == "postprocess"
        ctx.oblige(f"{prefix}pre-and-post-once#{i}", s, z3.BoolVal(bool(shape)), replay={"mirror": "optimize_gating"})
        if shape:
            ctx.oblige(f"{prefix}preprocess-of-argument#{i}", s, pres[0][1] == prg.term, replay={"mirror": "optimize_gating"})
            ctx.oblige(f"{prefix}result-is-postprocess#{i}", s, ex.to_term(s, v, LA) == post(posts[0][1]), replay={"mirror": "optimize_gating"})
    return res


@unit("C19.optimize-gating", "C19", "ngo.api:optimize", fallback="optimize_gating_bounded")
def optimize_gating_unit(ctx):
    """optimize(): a pass runs only if its own flag is true; every enabled pass is constructed from the current
    program with IN/OUT in the right parameter positions and executed on the current program, in the fixed order;
    preprocess once before, exline_arithmetic every round, postprocess once after (pass bodies uninterpreted)"""
    optimize_gating(ctx)
    ctx.adopt_engine_obligations(source="property", replay={"mirror": "optimize_gating"})


@unit("C19.get_parser", "C19", "ngo.utils.parser:get_parser", fallback="verify_enable_bounded")
def get_parser_unit(ctx):
    """the parser declares --enable with action VerifyEnable, one or more values, lower-casing, choices = {all, none,
    default} + the nine traits and default DEFAULT_OPTIONS; --input-predicates / --output-predicates with action
    PredicateList, an optional value and default `auto`"""
    from pyvc.values import ClassVal, Builtin

    ex = ctx.ex
    st = ctx.state()
    parser = Opaque("parser")
    ex.opaque_handlers["argparse.ArgumentParser"] = lambda e, s, a, k: [(s, parser)]
    ex.opaque_handlers["textwrap.dedent"] = lambda e, s, a, k: [(s, "ngo")]
    res = ctx.call(st, ctx.fn("ngo.utils.parser", "get_parser"), [])
    ok, bad = returned(res)
    ctx.cover("reach", st)
    no_raise(ctx, "no-raise", res)
    for n, (s, r) in enumerate(ok):
        adds = {}
        for e in s.log:
            if e[0] == "call" and e[1] == "parser.add_argument":
                flags = [a for a in e[2] if isinstance(a, str)]
                adds[flags[0] if flags else "?"] = dict(e[3])
        ctx.oblige(f"returns-the-parser#{n}", s, z3.BoolVal(r == parser), kind="frame", replay={"mirror": "verify_enable_bounded"})
        en = adds.get("--enable", {})
        choices = ex.B.concrete_items(s, en.get("choices")) if en.get("choices") is not None else None
        default = ex.B.concrete_items(s, en.get("default")) if en.get("default") is not None else None
        ok_enable = (
            isinstance(en.get("action"), ClassVal)
            and en["action"].name == "VerifyEnable"
            and en.get("nargs") == "+"
            and isinstance(en.get("type"), Builtin)
            and en["type"].name == "str.lower"
            and choices is not None
            and sorted(choices) == sorted(TOKENS)
            and default is not None
            and sorted(default) == sorted(t for t in TRAITS if t != "duplication")
        )
        ctx.oblige(f"enable-option#{n}", s, z3.BoolVal(bool(ok_enable)), replay={"mirror": "verify_enable_bounded"})
        for opt in ("--input-predicates", "--output-predicates"):
            o = adds.get(opt, {})
            okp = isinstance(o.get("action"), ClassVal) and o["action"].name == "PredicateList" and o.get("nargs") == "?" and o.get("default") == "auto"
            ctx.oblige(f"predicate-option[{opt}]#{n}", s, z3.BoolVal(bool(okp)), replay={"mirror": "main_wiring"})
    ctx.inputs.clear()
    ctx.assume_note("argparse's documented behaviour for action / nargs / type / choices / default is assumed")


@unit("C19.PredicateList", "C19", "ngo.utils.parser:PredicateList.__call__", fallback="predicate_list_bounded")
def predicate_list(ctx):
    """`auto` is passed on as `auto`; None or the empty string give the empty list; otherwise the value is split at
    commas and every item must split at `/` into exactly two parts: the predicate name (blanks stripped) and an integer
    arity -- an error otherwise; the predicates are stored in order.  (str.split / str.strip / int are uninterpreted.)"""
    from pyvc.exec import Raised as _R

    ex, m = ctx.ex, ctx.m
    me, parser, ns = Opaque("self"), Opaque("parser"), Opaque("namespace")
    f = ctx.method("ngo.utils.parser", "PredicateList", "__call__", me)
    # 1. the three special values
    for tag, val, want in (("auto", "auto", "auto"), ("none", None, []), ("empty", "", [])):
        st = ctx.state()
        res = ctx.call(st, f, [parser, ns, val, Opaque("option_string")])
        ok, bad = returned(res)
        no_raise(ctx, f"no-raise[{tag}]", res)
        for n, (s, _r) in enumerate(ok):
            sets = [e for e in s.log if e[0] == "setattr"]
            good = len(sets) == 1 and sets[0][1] == ns
            if good:
                v = sets[0][3]
                good = (v == "auto") if want == "auto" else (ex.B.concrete_items(s, v) == [])
            ctx.oblige(f"special-value[{tag}]#{n}", s, z3.BoolVal(bool(good)), replay={"mirror": "predicate_list_bounded"})
    # 2. a general string
    st = ctx.state()
    values = ctx.sym("values", "str")
    st.assume(values.term != m.strlit("auto"), values.term != m.strlit(""))
    res = ctx.call(st, f, [parser, ns, values, Opaque("option_string")])
    ok, bad = returned(res)
    ctx.cover("reach", st)
    split = ex.ufunc("str_split", [m.Str, m.Str], m.sort(("list", "str")))
    strip = ex.ufunc("str_strip", [m.Str, m.Str], m.Str)
    parse_ok = ex.ufunc("int_parse_ok", [m.Str], z3.BoolSort())
    parse = ex.ufunc("int_parse", [m.Str], z3.IntSort())
    lnS, atS = m.lst_funcs("str")
    items = split(values.term, m.strlit(","))
    k = z3.Int("k!pl")
    parts = split(atS(items, k), m.strlit("/"))
    item_ok = z3.And(lnS(parts) == 2, parse_ok(atS(parts, 1)))
    all_ok = z3.ForAll([k], z3.Implies(z3.And(0 <= k, k < lnS(items)), item_ok))
    PRED = ("rec", "Predicate")
    lnP, atP = m.lst_funcs(PRED)
    for n, (s, r) in enumerate(bad):
        ctx.oblige(f"error-only-for-malformed-item#{n}", s, z3.And(z3.BoolVal(r.exc == "ArgumentTypeError"), z3.Not(all_ok)), replay={"mirror": "predicate_list_bounded"})
    for n, (s, _r) in enumerate(ok):
        sets = [e for e in s.log if e[0] == "setattr"]
        if len(sets) != 1:
            ctx.oblige(f"stores-once#{n}", s, z3.BoolVal(False), replay={"mirror": "predicate_list_bounded"})
            continue
        lt = ex.to_term(s, sets[0][3], ("list", PRED))
        want = m.rec_ctor("Predicate")(strip(atS(split(atS(items, k), m.strlit("/")), 0), m.strlit(" ")), parse(atS(split(atS(items, k), m.strlit("/")), 1)))
        ctx.oblige(
            f"list-of-predicates#{n}",
            s,
            z3.And(all_ok, lnP(lt) == lnS(items), z3.ForAll([k], z3.Implies(z3.And(0 <= k, k < lnS(items)), atP(lt, k) == want))),
            replay={"mirror": "predicate_list_bounded"},
        )
    ctx.inputs.clear()
    ctx.assume_note("str.split / str.strip / int() are uninterpreted functions (their stdlib meaning is assumed); the bounded stand-in predicate_list_bounded runs the real parser on concrete strings")
