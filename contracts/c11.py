"""C11 -- symmetry: classification of comparison literals into `!=` / `<` facts (ngo.symmetry._inequalities)"""
from __future__ import annotations

import z3

from pyvc.unit import unit
from pyvc.values import SV, DictObj, ListObj, Ref

from .common import no_raise, returned, sem_of, wf_of


def _hints(m, body):
    """candidate shapes for the native replay: a single comparison literal `[not] X op Y` over two variables"""
    A = m.AST
    ln, at = m.lst_funcs("ast")
    b0 = at(body.term, 0)
    atom = A.Literal_atom(b0)
    g = at(A.Comparison_guards(atom), 0)
    out = []
    for sign in ("Negation", "NoSign"):
        for op in ("GreaterThan", "LessThan", "Equal", "NotEqual", "LessEqual", "GreaterEqual"):
            out.append(
                z3.And(
                    ln(body.term) == 1,
                    A.is_Literal(b0),
                    A.Literal_sign(b0) == m.enums["Sign"][1][sign],
                    A.is_Comparison(atom),
                    A.is_Variable(A.Comparison_term(atom)),
                    A.is_Variable(A.Guard_term(g)),
                    A.Guard_comparison(g) == m.enums["ComparisonOperator"][1][op],
                    A.Variable_name(A.Comparison_term(atom)) != A.Variable_name(A.Guard_term(g)),
                )
            )
    return out


@unit("C11.inequalities", "C11", "ngo.symmetry:SymmetryTranslator._inequalities", fallback={"mirror": "corpus", "trait": "symmetry"})
def inequalities(ctx):
    """every recorded (lit, x, y) under `!=` really implies x != y, every one under `<` really implies x < y
    (for every variable assignment under which lit holds); only literals of the given body are recorded"""
    sem, wf, m = sem_of(ctx), wf_of(ctx), ctx.m
    ex = ctx.ex
    A = m.AST
    E = m.enums["ComparisonOperator"][1]
    st = ctx.state()
    body = ctx.sym("body", ("list", "ast"))
    ln, at = m.lst_funcs("ast")
    i = z3.Int("i!b")
    e = at(body.term, i)
    # precondition: well-formed body literals in ngo's normal form (comparisons are binary: C05's postcondition)
    nf = z3.Implies(z3.And(A.is_Literal(e), A.is_Comparison(A.Literal_atom(e))), ln(A.Comparison_guards(A.Literal_atom(e))) == 1)
    st.assume(z3.ForAll([i], z3.Implies(z3.And(0 <= i, i < ln(body.term)), z3.And(wf.wf("body_literal", e, 3), nf)), patterns=[e]))
    res = ctx.call(st, ctx.method("ngo.symmetry", "SymmetryTranslator", "_inequalities", None), [body])
    ok, bad = returned(res)
    ctx.cover("reach", st)
    no_raise(ctx, "no-raise", res)
    env = z3.Const("env", sem.Env)
    TT = ("tuple", "ast", "ast", "ast")

    def lit_holds(lit):
        atom = A.Literal_atom(lit)
        g = at(A.Comparison_guards(atom), 0)
        return sem.signed(A.Literal_sign(lit), sem.cmp_holds(A.Guard_comparison(g), sem.tval(A.Comparison_term(atom), env), sem.tval(A.Guard_term(g), env)))

    for n, (s, r) in enumerate(ok):
        d = s.heap[r.id]
        assert isinstance(d, DictObj)
        for kk, bucket in d.items:
            is_ne = kk.term.eq(E["NotEqual"])
            is_lt = kk.term.eq(E["LessThan"])
            ctx.oblige(f"post-keys#{n}", s, z3.BoolVal(bool(is_ne or is_lt)), replay={"mirror": "inequalities"})
            bt = ex.to_term(s, bucket, ("list", TT))
            lnT, atT = m.lst_funcs(TT)
            _srt, _mk, accs = m.tuple_parts(TT)
            j, i2 = z3.Int("j!q"), z3.Int("i!q")
            t = atT(bt, j)
            lit, x, y = accs[0](t), accs[1](t), accs[2](t)
            concl = (sem.tval(x, env) != sem.tval(y, env)) if is_ne else sem.vlt(sem.tval(x, env), sem.tval(y, env))
            ctx.oblige(
                f"post-{'neq' if is_ne else 'lt'}#{n}",
                s,
                z3.ForAll(
                    [j],
                    z3.Implies(
                        z3.And(0 <= j, j < lnT(bt)),
                        z3.And(
                            z3.Exists([i2], z3.And(0 <= i2, i2 < ln(body.term), at(body.term, i2) == lit)),
                            A.is_Literal(lit),
                            A.is_Comparison(A.Literal_atom(lit)),
                            z3.Implies(lit_holds(lit), concl),
                        ),
                    ),
                ),
                replay={"mirror": "inequalities"},
                hints=_hints(m, body),
            )


@unit("C11.unequal", "C11", "ngo.symmetry:SymmetryTranslator._unequal", fallback={"mirror": "corpus", "trait": "symmetry"})
def unequal(ctx):
    """_unequal(lhs, rhs, table) returns an entry of the table recorded for exactly the unordered pair {lhs, rhs},
    with the operator of the bucket it was found in; None only if no entry exists for the pair"""
    m, ex = ctx.m, ctx.ex
    A = m.AST
    E = m.enums["ComparisonOperator"][1]
    TT = ("tuple", "ast", "ast", "ast")
    st = ctx.state()
    lhs, rhs = ctx.sym("lhs", "ast"), ctx.sym("rhs", "ast")
    ne_ref, ne = ctx.sym_list(st, "neq_entries", TT)
    lt_ref, lt = ctx.sym_list(st, "lt_entries", TT)
    CMP = ("enum", "ComparisonOperator")
    table = st.alloc(DictObj(((SV(E["NotEqual"], CMP), ne_ref), (SV(E["LessThan"], CMP), lt_ref)), "list"))
    res = ctx.call(st, ctx.method("ngo.symmetry", "SymmetryTranslator", "_unequal", None), [lhs, rhs, table])
    ok, bad = returned(res)
    ctx.cover("reach", st)
    no_raise(ctx, "no-raise", res)
    lnT, atT = m.lst_funcs(TT)
    _srt, _mk, accs = m.tuple_parts(TT)
    j = z3.Int("j!u")

    def has(bucket, lit=None):
        t = atT(bucket.term, j)
        pair = z3.Or(z3.And(lhs.term == accs[1](t), rhs.term == accs[2](t)), z3.And(lhs.term == accs[2](t), rhs.term == accs[1](t)))
        conj = [0 <= j, j < lnT(bucket.term), pair]
        if lit is not None:
            conj.append(accs[0](t) == lit)
        return z3.Exists([j], z3.And(*conj))

    for n, (s, r) in enumerate(ok):
        if r is None:
            ctx.oblige(f"post-none#{n}", s, z3.And(z3.Not(has(ne)), z3.Not(has(lt))))
        else:
            op, lit = r.items
            ctx.oblige(f"post-entry#{n}", s, z3.Or(z3.And(op.term == E["NotEqual"], has(ne, lit.term)), z3.And(op.term == E["LessThan"], has(lt, lit.term))))
    ctx.inputs.clear()
