"""C12 -- minmax_chains kernels (ngo.minmax_aggregates): which aggregates are translated how, and what replaces them"""
from __future__ import annotations

import z3

from pyvc.state import fresh_id
from pyvc.unit import unit
from pyvc.values import SV, ListObj, Obj, Opaque, Ref

from .agg import _agg_units
from .common import no_raise, returned, sem_of, wf_of
from .ops import _ops_units

_agg_units("C12", "C12")


def nf_body_literal(ctx, x, depth=3):
    """well-formed body literal in ngo's normal form (postcondition of normalize, C05): a body aggregate has a
    right guard only together with a left guard"""
    wf, m = wf_of(ctx), ctx.m
    A = m.AST
    atom = A.Literal_atom(x)
    nf = z3.Implies(
        z3.And(A.is_Literal(x), A.is_BodyAggregate(atom)),
        z3.Implies(A.BodyAggregate_right_guard(atom) != m.NoneAST, A.BodyAggregate_left_guard(atom) != m.NoneAST),
    )
    return z3.And(wf.wf("body_literal", x, depth), nf)


def wf_rule_or_minimize(ctx, st, rule):
    wf, m = wf_of(ctx), ctx.m
    A = m.AST
    ln, at = m.lst_funcs("ast")
    i = z3.Int(f"i!wr{fresh_id()}")
    body = z3.If(A.is_Rule(rule), A.Rule_body(rule), A.Minimize_body(rule))
    st.assume(z3.Or(wf.wf("Rule", rule, 1), wf.wf("Minimize", rule, 1)))
    for b in (A.Rule_body(rule), A.Minimize_body(rule)):
        st.assume(z3.ForAll([i], z3.Implies(z3.And(0 <= i, i < ln(b)), nf_body_literal(ctx, at(b, i))), patterns=[at(b, i)]))
    return body


@unit("C12.minmax_agg", "C12", "ngo.minmax_aggregates:MinMaxAggregator._minmax_agg", fallback={"mirror": "corpus", "trait": "minmax_chains"})
def minmax_agg(ctx):
    """_minmax_agg returns None or a literal of the rule's body whose atom is a #min/#max body aggregate"""
    m = ctx.m
    A = m.AST
    F = m.enums["AggregateFunction"][1]
    st = ctx.state()
    rule = ctx.sym("rule", "ast")
    body = wf_rule_or_minimize(ctx, st, rule.term)
    me = ctx.new_object(st, "MinMaxAggregator")
    res = ctx.call(st, ctx.method("ngo.minmax_aggregates", "MinMaxAggregator", "_minmax_agg", me), [rule])
    ok, bad = returned(res)
    ctx.cover("reach", st)
    no_raise(ctx, "no-raise", res)
    ln, at = m.lst_funcs("ast")
    j = z3.Int("j!mm")
    for n, (s, r) in enumerate(ok):
        if r is None:
            continue
        atom = A.Literal_atom(r.term)
        ctx.oblige(
            f"post#{n}",
            s,
            z3.And(
                z3.Exists([j], z3.And(0 <= j, j < ln(body), at(body, j) == r.term)),
                A.is_Literal(r.term),
                A.is_BodyAggregate(atom),
                z3.Or(A.BodyAggregate_function(atom) == F["Min"], A.BodyAggregate_function(atom) == F["Max"]),
            ),
            replay={"mirror": "minmax_agg"},
        )


def extreme_def(sem, F, func, W, ext):
    """ext is the value of #max/#min over the candidate set W (a finite set of values; #inf / #sup when empty)"""
    w = z3.Const(f"w!ex{fresh_id()}", sem.Val)
    empty = z3.ForAll([w], z3.Not(z3.Select(W, w)))
    is_max = z3.And(z3.Select(W, ext), z3.ForAll([w], z3.Implies(z3.Select(W, w), sem.vle(w, ext)), patterns=[z3.Select(W, w)]))
    is_min = z3.And(z3.Select(W, ext), z3.ForAll([w], z3.Implies(z3.Select(W, w), sem.vle(ext, w)), patterns=[z3.Select(W, w)]))
    return z3.If(func == F["Max"], z3.Or(z3.And(empty, ext == sem.vinf), is_max), z3.Or(z3.And(empty, ext == sem.vsup), is_min))


@unit("C12.process_rule", "C12", "ngo.minmax_aggregates:MinMaxAggregator._process_rule", fallback={"mirror": "corpus", "trait": "minmax_chains"})
def process_rule(ctx):
    """decision table: the one-rule-per-element translation is chosen only for (function, operator, sign) combinations
    for which  sign(t op #f W)  <=>  exists w in W. sign(t op w)  holds for every candidate set W (including the empty
    one); every other aggregate goes to the chain translation or the rule is returned unchanged; never an exception"""
    sem, m, ex = sem_of(ctx), ctx.m, ctx.ex
    A = m.AST
    F = m.enums["AggregateFunction"][1]
    S = m.enums["Sign"][1]
    st = ctx.state()
    rule = ctx.sym("rule", "ast")
    wf_rule_or_minimize(ctx, st, rule.term)
    me = ctx.new_object(st, "MinMaxAggregator")
    translatable = ex.ufunc("translatable_element", [m.AST], z3.BoolSort())
    ex.overrides["ngo.minmax_aggregates:MinMaxAggregator._translatable_element"] = lambda e, s, a, k: [(s, SV(translatable(a[1].term), "bool"))]

    def logged(name):
        def h(e, s, a, k):
            s.log.append((name, a[1], a[2]))
            return [(s, s.alloc(ListObj(sv=e.fresh(s, name, ("list", "ast")))))]

        return h

    ex.overrides["ngo.minmax_aggregates:MinMaxAggregator._simple_translation"] = logged("simple")
    ex.overrides["ngo.minmax_aggregates:MinMaxAggregator._chain_translation"] = logged("chain")
    res = ctx.call(st, ctx.method("ngo.minmax_aggregates", "MinMaxAggregator", "_process_rule", me), [rule])
    ok, bad = returned(res)
    ctx.cover("reach", st)
    no_raise(ctx, "no-raise", res, kind="assert")
    W = z3.Const("W", z3.ArraySort(sem.Val, z3.BoolSort()))
    t, ext, w = z3.Const("t", sem.Val), z3.Const("ext", sem.Val), z3.Const("w!pr", sem.Val)
    n_simple = 0
    for n, (s, r) in enumerate(ok):
        calls = [e for e in s.log if e[0] in ("simple", "chain")]
        if not calls:
            # unchanged: the result is the one-element list [rule]
            items = ex.B.concrete_items(s, r)
            same = items is not None and len(items) == 1
            ctx.oblige(f"unchanged#{n}", s, ex.as_z3_bool(ex.eq(s, items[0], rule)) if same else z3.BoolVal(False), kind="frame", replay={"mirror": "process_rule"})
            continue
        kind, r_arg, agg = calls[0]
        ctx.oblige(f"one-translation#{n}", s, z3.And(z3.BoolVal(len(calls) == 1), r_arg.term == rule.term), kind="frame", replay={"mirror": "process_rule"})
        if kind != "simple":
            # call-site precondition of the chain translation (and of replace_orig below): it replaces the aggregate
            # literal by positive literals, so it must only be reached for a positive literal
            ctx.oblige(f"chain-only-for-positive-literals#{n}", s, A.Literal_sign(agg.term) == S["NoSign"], kind="callsite-pre", replay={"mirror": "process_rule"})
            continue
        n_simple += 1
        atom = A.Literal_atom(agg.term)
        lg = A.BodyAggregate_left_guard(atom)
        op, func, sign = A.Guard_comparison(lg), A.BodyAggregate_function(atom), A.Literal_sign(agg.term)
        ctx.oblige(
            f"simple-shape#{n}",
            s,
            z3.And(A.is_BodyAggregate(atom), A.BodyAggregate_right_guard(atom) == m.NoneAST, A.is_Guard(lg), z3.Or(func == F["Min"], func == F["Max"]), sign != S["DoubleNegation"]),
            kind="callsite-pre",
            replay={"mirror": "process_rule"},
        )
        lhs = sem.signed(sign, sem.cmp_holds(op, t, ext))
        rhs = z3.Exists([w], z3.And(z3.Select(W, w), sem.signed(sign, sem.cmp_holds(op, t, w))))
        ctx.oblige(
            f"simple-table-valid#{n}",
            s,
            z3.Implies(extreme_def(sem, F, func, W, ext), lhs == rhs),
            kind="callsite-pre",
            replay={"mirror": "process_rule"},
            exclude={"C12-simple-translation-inf-sup-guard": z3.Or(t == sem.vinf, t == sem.vsup)},
        )
    ctx.cover("some-simple-path", [z3.BoolVal(n_simple > 0)])


@unit("C12.replace_orig", "C12", "ngo.minmax_aggregates:MinMaxAggregator.replace_orig", fallback={"mirror": "corpus", "trait": "minmax_chains"})
def replace_orig(ctx):
    """the literals that replace the aggregate (result atom excluded) say about the result variable exactly what the
    guards of the aggregate literal say about the aggregate value -- including the sign of the literal; the head and
    the literals outside the aggregate are kept"""
    sem, m, ex = sem_of(ctx), ctx.m, ctx.ex
    wf = wf_of(ctx)
    A = m.AST
    S = m.enums["Sign"][1]
    st = ctx.state()
    rule, agg = ctx.sym("rule", "ast"), ctx.sym("agg", "ast")
    new_name = ctx.sym("new_name", "str")
    rest_ref, rest_vars = ctx.sym_list(st, "rest_vars", "ast")
    lw_ref, lits_without = ctx.sym_list(st, "lits_without_vars", "ast")
    st.assume(z3.Or(wf.wf("Rule", rule.term, 1), wf.wf("Minimize", rule.term, 1)))
    st.assume(nf_body_literal(ctx, agg.term), A.is_Literal(agg.term), A.is_BodyAggregate(A.Literal_atom(agg.term)))
    # call-site precondition (proved in C12.process_rule/chain-only-for-positive-literals): the literal is positive
    st.assume(A.Literal_sign(agg.term) == S["NoSign"])
    me = ctx.new_object(st, "MinMaxAggregator")
    for nme in ("_store_aggregate_head", "_store_aggregate_for_minimize"):
        ex.overrides[f"ngo.minmax_aggregates:MinMaxAggregator.{nme}"] = lambda e, s, a, k, nme=nme: (s.log.append((nme, tuple(a[1:]))), [(s, None)])[1]
    res = ctx.call(st, ctx.method("ngo.minmax_aggregates", "MinMaxAggregator", "replace_orig", me), [rule, agg, new_name, rest_ref, lw_ref])
    ok, bad = returned(res)
    ctx.cover("reach", st)
    no_raise(ctx, "no-raise", res)
    env = z3.Const("env", sem.Env)
    atom = A.Literal_atom(agg.term)
    ln, at = m.lst_funcs("ast")
    for n, (s, r) in enumerate(ok):
        items = ex.B.concrete_items(s, r)
        if items is None or len(items) != 1:
            ctx.oblige(f"one-rule#{n}", s, z3.BoolVal(False), replay={"mirror": "replace_orig"})
            continue
        newr = items[0].term
        nb = z3.If(A.is_Rule(newr), A.Rule_body(newr), A.Minimize_body(newr))
        # first literal: the positive result atom  new_name(rest_vars ++ [V]);  V names the aggregate value
        first = at(nb, 0)
        sym = A.SymbolicAtom_symbol(A.Literal_atom(first))
        fargs = A.Function_arguments(sym)
        V = at(fargs, ln(rest_vars.term))
        shape = z3.And(
            ln(nb) >= 1,
            A.is_Literal(first),
            A.Literal_sign(first) == S["NoSign"],
            A.is_SymbolicAtom(A.Literal_atom(first)),
            A.is_Function(sym),
            A.Function_name(sym) == new_name.term,
            ln(fargs) == ln(rest_vars.term) + 1,
            A.is_Variable(V),
        )
        ctx.oblige(f"result-atom#{n}", s, shape, replay={"mirror": "replace_orig"})
        v = sem.lookup(env, A.Variable_name(V))
        # the literals between the result atom and lits_without_vars are comparisons  V op t
        k = z3.Int("k!ro")
        n_rep = ln(nb) - 1 - ln(lits_without.term)
        lit = at(nb, 1 + k)

        def cmp_lit_holds(x):
            a = A.Literal_atom(x)
            g = at(A.Comparison_guards(a), 0)
            return z3.And(
                A.is_Literal(x),
                A.is_Comparison(a),
                ln(A.Comparison_guards(a)) == 1,
                sem.signed(A.Literal_sign(x), sem.cmp_holds(A.Guard_comparison(g), sem.tval(A.Comparison_term(a), env), sem.tval(A.Guard_term(g), env))),
            )

        repairs_hold = z3.ForAll([k], z3.Implies(z3.And(0 <= k, k < n_rep), cmp_lit_holds(lit)))
        guards = z3.And(sem.guard_left(A.BodyAggregate_left_guard(atom), v, env), sem.guard_right(A.BodyAggregate_right_guard(atom), v, env))
        ctx.oblige(
            f"post-meaning#{n}",
            s,
            z3.And(n_rep >= 0, repairs_hold == sem.signed(A.Literal_sign(agg.term), guards)),
            replay={"mirror": "replace_orig"},
        )
        ctx.oblige(
            f"frame-tail-and-head#{n}",
            s,
            z3.And(
                z3.ForAll([k], z3.Implies(z3.And(0 <= k, k < ln(lits_without.term)), at(nb, ln(nb) - ln(lits_without.term) + k) == at(lits_without.term, k))),
                z3.If(A.is_Rule(rule.term), z3.And(A.is_Rule(newr), A.Rule_head(newr) == A.Rule_head(rule.term)), z3.And(A.is_Minimize(newr), A.Minimize_weight(newr) == A.Minimize_weight(rule.term), A.Minimize_terms(newr) == A.Minimize_terms(rule.term))),
            ),
            kind="frame",
            replay={"mirror": "replace_orig"},
        )
    ctx.inputs = {k: v for k, v in ctx.inputs.items() if k in ("rule", "agg")}
