"""C05 -- with every trait disabled the rewrite is meaning-preserving: normal-form kernels of ngo.normalize"""
from __future__ import annotations

import z3

from pyvc.unit import unit
from pyvc.values import SV, Fn, Unsupported

from .common import no_raise, returned, sem_of, wf_of
from .ops import _ops_units

_ops_units("C05", "C05")


@unit("C05.guards", "C05", "ngo.normalize:remove_unecessary_bounds.<locals>.replace", fallback={"mirror": "corpus", "trait": "none"})
def guards(ctx):
    """dropping #inf/#sup guards and moving a lone right guard to the left keeps the truth value of the
    guards for every aggregate value and every variable assignment; nothing else of the aggregate changes"""
    sem, wf, m = sem_of(ctx), wf_of(ctx), ctx.m
    agg = ctx.sym("bodyagg", "ast")
    st = ctx.state()
    st.assume(wf.wf("BodyAggregate", agg.term, depth=2))
    # the closure `replace` is obtained the way the real code hands it out: remove_unecessary_bounds passes it to
    # transform_ast(stm, "BodyAggregate", replace); the override applies it to the symbolic aggregate
    seen = {}

    def transform_ast(e, s, a, k):
        kind = a[1] if len(a) > 1 else k.get("ast_name")
        fnv = a[2] if len(a) > 2 else k.get("function")
        seen["kind"] = kind
        return e.call(s, None, fnv, [agg], {})

    ctx.ex.overrides["ngo.utils.ast:transform_ast"] = transform_ast
    stm = ctx.sym("stm", "ast")
    prg = st.alloc(ListObj(items=(stm,)))
    outer = ctx.call(st, ctx.fn("ngo.normalize", "remove_unecessary_bounds"), [prg])
    ctx.inputs.pop("stm", None)
    res = []
    for s_, v_ in outer:
        from pyvc.exec import Raised as _R

        if isinstance(v_, _R):
            res.append((s_, v_))
            continue
        items = ctx.ex.B.concrete_items(s_, v_)
        if items is None or len(items) != 1:
            raise Unsupported("remove_unecessary_bounds no longer maps statements one to one")
        res.append((s_, items[0]))
    ctx.oblige("applies-to-body-aggregates", [], z3.BoolVal(seen.get("kind") == "BodyAggregate"), kind="frame")
    ok, bad = returned(res)
    ctx.cover("reach", st)
    v = z3.Const("agg_value", sem.Val)
    env = z3.Const("env", sem.Env)
    A = m.AST
    old = sem_guards(sem, A, agg.term, v, env)
    for i, (s, r) in enumerate(ok):
        new = sem_guards(sem, A, r.term, v, env)
        ctx.oblige(f"post-equiv#{i}", s, z3.And(A.is_BodyAggregate(r.term), old == new), replay={"mirror": "guards"})
        ctx.oblige(
            f"post-nf#{i}",
            s,
            z3.Implies(A.BodyAggregate_right_guard(r.term) != m.NoneAST, A.BodyAggregate_left_guard(r.term) != m.NoneAST),
            replay={"mirror": "guards"},
        )
        ctx.oblige(
            f"frame#{i}",
            s,
            z3.And(
                A.BodyAggregate_function(r.term) == A.BodyAggregate_function(agg.term),
                A.BodyAggregate_elements(r.term) == A.BodyAggregate_elements(agg.term),
            ),
            kind="frame",
            replay={"mirror": "guards"},
        )
    no_raise(ctx, "no-raise", res)


def sem_guards(sem, A, agg, v, env):
    return z3.And(sem.guard_left(A.BodyAggregate_left_guard(agg), v, env), sem.guard_right(A.BodyAggregate_right_guard(agg), v, env))


from pyvc.state import fresh_id  # noqa: E402
from pyvc.values import ListObj, Ref, Tup  # noqa: E402


@unit("C05.count_to_sum", "C05", "ngo.normalize:_convert_count_to_sum", fallback={"mirror": "corpus", "trait": "none"})
def count_to_sum(ctx):
    """#count{t : c} becomes #sum+{1,t : c}: same guards, same elements in order, each with weight 1 put in front of the
    old tuple and the same condition (so distinct tuples stay distinct and the value is the number of tuples)"""
    m, ex = ctx.m, ctx.ex
    wf = wf_of(ctx)
    A = m.AST
    F = m.enums["AggregateFunction"][1]
    st = ctx.state()
    agg = ctx.sym("agg", "ast")
    st.assume(wf.wf("BodyAggregate", agg.term, 2))
    _e0 = m.at(m.AST.BodyAggregate_elements(agg.term), 0, "ast")
    cs_hints = [z3.And(m.len(m.AST.BodyAggregate_elements(agg.term), "ast") == 1, m.len(m.AST.BodyAggregateElement_terms(_e0), "ast") == 1)]
    res = ctx.call(st, ctx.fn("ngo.normalize", "_convert_count_to_sum"), [agg])
    ok, bad = returned(res)
    ctx.cover("reach", st)
    no_raise(ctx, "no-raise", res)
    ln, at = m.lst_funcs("ast")
    j, i = z3.Int("j!cs"), z3.Int("i!cs")
    oe = A.BodyAggregate_elements(agg.term)
    for n, (s, r) in enumerate(ok):
        ne = A.BodyAggregate_elements(r.term)
        ot, nt = A.BodyAggregateElement_terms(at(oe, j)), A.BodyAggregateElement_terms(at(ne, j))
        one = A.SymbolicTerm(m.Sym.SymNumber(1))
        ctx.oblige(
            f"post#{n}",
            s,
            z3.And(
                A.is_BodyAggregate(r.term),
                A.BodyAggregate_function(r.term) == F["SumPlus"],
                A.BodyAggregate_left_guard(r.term) == A.BodyAggregate_left_guard(agg.term),
                A.BodyAggregate_right_guard(r.term) == A.BodyAggregate_right_guard(agg.term),
                ln(ne) == ln(oe),
                z3.ForAll(
                    [j],
                    z3.Implies(
                        z3.And(0 <= j, j < ln(oe)),
                        z3.And(
                            A.is_BodyAggregateElement(at(ne, j)),
                            A.BodyAggregateElement_condition(at(ne, j)) == A.BodyAggregateElement_condition(at(oe, j)),
                            ln(nt) == ln(ot) + 1,
                            at(nt, 0) == one,
                            z3.ForAll([i], z3.Implies(z3.And(0 <= i, i < ln(ot)), at(nt, i + 1) == at(ot, i))),
                        ),
                    ),
                ),
            ),
            replay={"mirror": "count_to_sum"},
            hints=cs_hints,
        )


@unit("C05.equality", "C05", "ngo.normalize:_equality", fallback={"mirror": "corpus", "trait": "none"})
def equality(ctx):
    """_equality(lit) = (X, t) only if lit means exactly X = t for every assignment, X is a named variable, lit contains
    no pool / interval, and X does not occur in t (side condition of  exists X.(X = t and phi) <=> phi[X := t])"""
    sem, m, ex = sem_of(ctx), ctx.m, ctx.ex
    wf = wf_of(ctx)
    A = m.AST
    st = ctx.state()
    lit = ctx.sym("lit", "ast")
    st.assume(wf.wf("body_literal", lit.term, 3))
    V = {}

    def collect_ast(e, s, a, k):
        name = a[1] if len(a) > 1 else k.get("ast_name")
        if name not in V:
            V[name] = e.ufunc("collect_" + name, [m.AST], m.sort(("list", "ast")))
        return [(s, s.alloc(ListObj(sv=SV(V[name](a[0].term), ("list", "ast")))))]

    ex.overrides["ngo.utils.ast:collect_ast"] = collect_ast
    res = ctx.call(st, ctx.fn("ngo.normalize", "_equality"), [lit])
    ok, bad = returned(res)
    ctx.cover("reach", st)
    no_raise(ctx, "no-raise", res)
    env = z3.Const("env", sem.Env)
    ln, at = m.lst_funcs("ast")
    atom = A.Literal_atom(lit.term)
    g = at(A.Comparison_guards(atom), 0)
    holds = sem.signed(A.Literal_sign(lit.term), sem.cmp_holds(A.Guard_comparison(g), sem.tval(A.Comparison_term(atom), env), sem.tval(A.Guard_term(g), env)))
    collect_var = ex.ufunc("collect_Variable", [m.AST], m.sort(("list", "ast")))
    j = z3.Int("j!eq")
    n_some = 0
    for n, (s, r) in enumerate(ok):
        if r is None:
            continue
        n_some += 1
        var, rest = r.items
        ctx.oblige(
            f"post-shape#{n}",
            s,
            z3.And(
                A.is_Literal(lit.term),
                A.is_Comparison(atom),
                ln(A.Comparison_guards(atom)) == 1,
                A.is_Variable(var.term),
                A.Variable_name(var.term) != m.strlit("_"),
                z3.Or(z3.And(var.term == A.Comparison_term(atom), rest.term == A.Guard_term(g)), z3.And(var.term == A.Guard_term(g), rest.term == A.Comparison_term(atom))),
                ln(ex.ufunc("collect_Pool", [m.AST], m.sort(("list", "ast")))(lit.term)) == 0,
                ln(ex.ufunc("collect_Interval", [m.AST], m.sort(("list", "ast")))(lit.term)) == 0,
            ),
            replay={"mirror": "equality"},
        )
        ctx.oblige(f"post-meaning#{n}", s, holds == (sem.tval(var.term, env) == sem.tval(rest.term, env)), replay={"mirror": "equality"})
        occurs = z3.Exists([j], z3.And(0 <= j, j < ln(collect_var(rest.term)), at(collect_var(rest.term), j) == var.term))
        ctx.oblige(
            f"post-occurs-check#{n}",
            s,
            z3.Not(occurs),
            replay={"mirror": "equality"},
            exclude={"C05-equality-occurs-check": occurs},
        )
    ctx.cover("some-equality-path", [z3.BoolVal(n_some > 0)])
    ctx.assume_note("collect_ast(x, K) is uninterpreted here (list of outermost K-nodes of x as computed by clingo's Transformer)")
