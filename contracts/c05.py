"""C05 -- with every trait disabled the rewrite is meaning-preserving: normal-form kernels of ngo.normalize"""
from __future__ import annotations

import z3

from pyvc.unit import unit
from pyvc.values import SV, Fn, Unsupported

from .common import no_raise, returned, sem_of, wf_of
from .ops import _ops_units

_ops_units("C05", "C05")


@unit("C05.guards", "C05", "ngo.normalize:remove_unecessary_bounds.<locals>.replace", fallback={"mirror": "corpus", "trait": "none"})
def guards(ctx):
    """dropping #inf/#sup guards and moving a lone right guard to the left keeps the truth value of the
    guards for every aggregate value and every variable assignment; nothing else of the aggregate changes"""
    sem, wf, m = sem_of(ctx), wf_of(ctx), ctx.m
    agg = ctx.sym("bodyagg", "ast")
    st = ctx.state()
    st.assume(wf.wf("BodyAggregate", agg.term, depth=2))
    # the closure `replace` is obtained the way the real code hands it out: remove_unecessary_bounds passes it to
    # transform_ast(stm, "BodyAggregate", replace); the override applies it to the symbolic aggregate
    seen = {}

    def transform_ast(e, s, a, k):
        kind = a[1] if len(a) > 1 else k.get("ast_name")
        fnv = a[2] if len(a) > 2 else k.get("function")
        seen["kind"] = kind
        return e.call(s, None, fnv, [agg], {})

    ctx.ex.overrides["ngo.utils.ast:transform_ast"] = transform_ast
    stm = ctx.sym("stm", "ast")
    prg = st.alloc(ListObj(items=(stm,)))
    outer = ctx.call(st, ctx.fn("ngo.normalize", "remove_unecessary_bounds"), [prg])
    ctx.inputs.pop("stm", None)
    res = []
    for s_, v_ in outer:
        from pyvc.exec import Raised as _R

        if isinstance(v_, _R):
            res.append((s_, v_))
            continue
        items = ctx.ex.B.concrete_items(s_, v_)
        if items is None or len(items) != 1:
            raise Unsupported("remove_unecessary_bounds no longer maps statements one to one")
        res.append((s_, items[0]))
    ctx.oblige("applies-to-body-aggregates", [], z3.BoolVal(seen.get("kind") == "BodyAggregate"), kind="frame")
    ok, bad = returned(res)
    ctx.cover("reach", st)
    v = z3.Const("agg_value", sem.Val)
    env = z3.Const("env", sem.Env)
    A = m.AST
    old = sem_guards(sem, A, agg.term, v, env)
    for i, (s, r) in enumerate(ok):
        new = sem_guards(sem, A, r.term, v, env)
        ctx.oblige(f"post-equiv#{i}", s, z3.And(A.is_BodyAggregate(r.term), old == new), replay={"mirror": "guards"})
        ctx.oblige(
            f"post-nf#{i}",
            s,
            z3.Implies(A.BodyAggregate_right_guard(r.term) != m.NoneAST, A.BodyAggregate_left_guard(r.term) != m.NoneAST),
            replay={"mirror": "guards"},
        )
        ctx.oblige(
            f"frame#{i}",
            s,
            z3.And(
                A.BodyAggregate_function(r.term) == A.BodyAggregate_function(agg.term),
                A.BodyAggregate_elements(r.term) == A.BodyAggregate_elements(agg.term),
            ),
            kind="frame",
            replay={"mirror": "guards"},
        )
    no_raise(ctx, "no-raise", res)


def sem_guards(sem, A, agg, v, env):
    return z3.And(sem.guard_left(A.BodyAggregate_left_guard(agg), v, env), sem.guard_right(A.BodyAggregate_right_guard(agg), v, env))


from pyvc.state import fresh_id  # noqa: E402
from pyvc.values import ListObj, Ref, Tup  # noqa: E402


@unit("C05.count_to_sum", "C05", "ngo.normalize:_convert_count_to_sum", fallback={"mirror": "corpus", "trait": "none"})
def count_to_sum(ctx):
    """#count{t : c} becomes #sum+{1,t : c}: same guards, same elements in order, each with weight 1 put in front of the
    old tuple and the same condition (so distinct tuples stay distinct and the value is the number of tuples)"""
    m, ex = ctx.m, ctx.ex
    wf = wf_of(ctx)
    A = m.AST
    F = m.enums["AggregateFunction"][1]
    st = ctx.state()
    agg = ctx.sym("agg", "ast")
    st.assume(wf.wf("BodyAggregate", agg.term, 2))
    _e0 = m.at(m.AST.BodyAggregate_elements(agg.term), 0, "ast")
    cs_hints = [z3.And(m.len(m.AST.BodyAggregate_elements(agg.term), "ast") == 1, m.len(m.AST.BodyAggregateElement_terms(_e0), "ast") == 1)]
    res = ctx.call(st, ctx.fn("ngo.normalize", "_convert_count_to_sum"), [agg])
    ok, bad = returned(res)
    ctx.cover("reach", st)
    no_raise(ctx, "no-raise", res)
    ln, at = m.lst_funcs("ast")
    j, i = z3.Int("j!cs"), z3.Int("i!cs")
    oe = A.BodyAggregate_elements(agg.term)
    for n, (s, r) in enumerate(ok):
        ne = A.BodyAggregate_elements(r.term)
        ot, nt = A.BodyAggregateElement_terms(at(oe, j)), A.BodyAggregateElement_terms(at(ne, j))
        one = A.SymbolicTerm(m.Sym.SymNumber(1))
        ctx.oblige(
            f"post#{n}",
            s,
            z3.And(
                A.is_BodyAggregate(r.term),
                A.BodyAggregate_function(r.term) == F["SumPlus"],
                A.BodyAggregate_left_guard(r.term) == A.BodyAggregate_left_guard(agg.term),
                A.BodyAggregate_right_guard(r.term) == A.BodyAggregate_right_guard(agg.term),
                ln(ne) == ln(oe),
                z3.ForAll(
                    [j],
                    z3.Implies(
                        z3.And(0 <= j, j < ln(oe)),
                        z3.And(
                            A.is_BodyAggregateElement(at(ne, j)),
                            A.BodyAggregateElement_condition(at(ne, j)) == A.BodyAggregateElement_condition(at(oe, j)),
                            ln(nt) == ln(ot) + 1,
                            at(nt, 0) == one,
                            z3.ForAll([i], z3.Implies(z3.And(0 <= i, i < ln(ot)), at(nt, i + 1) == at(ot, i))),
                        ),
                    ),
                ),
            ),
            replay={"mirror": "count_to_sum"},
            hints=cs_hints,
        )


@unit("C05.equality", "C05", "ngo.normalize:_equality", fallback={"mirror": "corpus", "trait": "none"})
def equality(ctx):
    """_equality(lit) = (X, t) only if lit means exactly X = t for every assignment, X is a named variable, lit contains
    no pool / interval, and X does not occur in t (side condition of  exists X.(X = t and phi) <=> phi[X := t])"""
    sem, m, ex = sem_of(ctx), ctx.m, ctx.ex
    wf = wf_of(ctx)
    A = m.AST
    st = ctx.state()
    lit = ctx.sym("lit", "ast")
    st.assume(wf.wf("body_literal", lit.term, 3))
    V = {}

    def collect_ast(e, s, a, k):
        name = a[1] if len(a) > 1 else k.get("ast_name")
        if name not in V:
            V[name] = e.ufunc("collect_" + name, [m.AST], m.sort(("list", "ast")))
        return [(s, s.alloc(ListObj(sv=SV(V[name](a[0].term), ("list", "ast")))))]

    ex.overrides["ngo.utils.ast:collect_ast"] = collect_ast
    res = ctx.call(st, ctx.fn("ngo.normalize", "_equality"), [lit])
    ok, bad = returned(res)
    ctx.cover("reach", st)
    no_raise(ctx, "no-raise", res)
    env = z3.Const("env", sem.Env)
    ln, at = m.lst_funcs("ast")
    atom = A.Literal_atom(lit.term)
    g = at(A.Comparison_guards(atom), 0)
    holds = sem.signed(A.Literal_sign(lit.term), sem.cmp_holds(A.Guard_comparison(g), sem.tval(A.Comparison_term(atom), env), sem.tval(A.Guard_term(g), env)))
    collect_var = ex.ufunc("collect_Variable", [m.AST], m.sort(("list", "ast")))
    j = z3.Int("j!eq")
    n_some = 0
    for n, (s, r) in enumerate(ok):
        if r is None:
            continue
        n_some += 1
        var, rest = r.items
        ctx.oblige(
            f"post-shape#{n}",
            s,
            z3.And(
                A.is_Literal(lit.term),
                A.is_Comparison(atom),
                ln(A.Comparison_guards(atom)) == 1,
                A.is_Variable(var.term),
                A.Variable_name(var.term) != m.strlit("_"),
                z3.Or(z3.And(var.term == A.Comparison_term(atom), rest.term == A.Guard_term(g)), z3.And(var.term == A.Guard_term(g), rest.term == A.Comparison_term(atom))),
                ln(ex.ufunc("collect_Pool", [m.AST], m.sort(("list", "ast")))(lit.term)) == 0,
                ln(ex.ufunc("collect_Interval", [m.AST], m.sort(("list", "ast")))(lit.term)) == 0,
            ),
            replay={"mirror": "equality"},
        )
        ctx.oblige(f"post-meaning#{n}", s, holds == (sem.tval(var.term, env) == sem.tval(rest.term, env)), replay={"mirror": "equality"})
        occurs = z3.Exists([j], z3.And(0 <= j, j < ln(collect_var(rest.term)), at(collect_var(rest.term), j) == var.term))
        ctx.oblige(
            f"post-occurs-check#{n}",
            s,
            z3.Not(occurs),
            replay={"mirror": "equality"},
            exclude={"C05-equality-occurs-check": occurs},
        )
    ctx.cover("some-equality-path", [z3.BoolVal(n_some > 0)])
    ctx.assume_note("collect_ast(x, K) is uninterpreted here (list of outermost K-nodes of x as computed by clingo's Transformer)")


from pyvc.loops import LoopSpec  # noqa: E402

TRIPLE = ("tuple", "ast", ("enum", "ComparisonOperator"), "ast")


@unit("C05.comparison2comparisonlist", "C05", "ngo.utils.ast:comparison2comparisonlist", fallback={"mirror": "corpus", "trait": "none"})
def comparison_list(ctx):
    """t0 op1 t1 op2 t2 ... is split into exactly the binary comparisons (t_{i-1}, op_i, t_i), in order"""
    m, ex = ctx.m, ctx.ex
    wf = wf_of(ctx)
    A = m.AST
    st = ctx.state()
    cmpn = ctx.sym("comparison", "ast")
    st.assume(wf.wf("Comparison", cmpn.term, 2))
    guards = A.Comparison_guards(cmpn.term)
    ln, at = m.lst_funcs("ast")
    lnT, atT = m.lst_funcs(TRIPLE)
    _srt, mk, accs = m.tuple_parts(TRIPLE)

    def T(i):
        return z3.If(i == 0, A.Comparison_term(cmpn.term), A.Guard_term(at(guards, i - 1)))

    def inv(c):
        ret = c.term("ret", ("list", TRIPLE))
        j = z3.Int(f"j!cl{fresh_id()}")
        return [
            lnT(ret) == c.k,
            c.term("lhs", "ast") == T(c.k),
            z3.ForAll([j], z3.Implies(z3.And(0 <= j, j < c.k), atT(ret, j) == mk(T(j), A.Guard_comparison(at(guards, j)), A.Guard_term(at(guards, j)))), patterns=[atT(ret, j)]),
        ]

    ex.loop_specs[("ngo.utils.ast:comparison2comparisonlist", 0)] = LoopSpec(inv=inv, modifies={"ret": ("list", TRIPLE), "lhs": "ast"}, name="prefix of the chain")
    res = ctx.call(st, ctx.fn("ngo.utils.ast", "comparison2comparisonlist"), [cmpn])
    ok, bad = returned(res)
    ctx.cover("reach", st)
    no_raise(ctx, "no-raise", res)
    j = z3.Int("j!clp")
    for n, (s, r) in enumerate(ok):
        rt = ex.to_term(s, r, ("list", TRIPLE))
        ctx.oblige(
            f"post#{n}",
            s,
            z3.And(lnT(rt) == ln(guards), z3.ForAll([j], z3.Implies(z3.And(0 <= j, j < ln(guards)), atT(rt, j) == mk(T(j), A.Guard_comparison(at(guards, j)), A.Guard_term(at(guards, j)))))),
            replay={"mirror": "comparison_list"},
        )
    ctx.adopt_engine_obligations(source="property", replay={"mirror": "comparison_list"})


@unit("C05.chain-split-lemma", "C05", "ngo.normalize:normalize_operators (sign handling of split chains)", fallback={"mirror": "corpus", "trait": "none"})
def chain_split_lemma(ctx):
    """a comparison literal  s (t0 op1 t1 ... opn tn)  means  s(AND_i t_{i-1} op_i t_i); normalize_operators replaces it
    by the literals  s(t_{i-1} op_i t_i)  (same sign on each: checked syntactically on the current source).  The two
    mean the same iff the sign is positive or the chain has one link: lemma over the semantic base, with the negated
    chain as a recorded known finding"""
    import ast as pyast

    sem, m = sem_of(ctx), ctx.m
    S = m.enums["Sign"][1]
    # (a) syntactic part: both comprehension sites of normalize.py build Literal(LOC, <x>.sign, Comparison(lhs, [Guard(cop, rhs)]))
    mod = ctx.ex.load_module("ngo.normalize")
    sites = []
    for n in pyast.walk(mod):
        if isinstance(n, pyast.ListComp) and isinstance(n.elt, pyast.Call) and getattr(n.elt.func, "id", "") == "Literal":
            a = n.elt.args
            sign_ok = len(a) == 3 and isinstance(a[1], pyast.Attribute) and a[1].attr == "sign"
            inner = a[2] if len(a) == 3 else None
            shape_ok = isinstance(inner, pyast.Call) and getattr(inner.func, "id", "") == "Comparison" and len(inner.args) == 2 and isinstance(inner.args[1], pyast.List) and len(inner.args[1].elts) == 1
            src_ok = isinstance(n.generators[0].iter, pyast.Call) and getattr(n.generators[0].iter.func, "id", "") == "comparison2comparisonlist"
            sites.append(bool(sign_ok and shape_ok and src_ok))
    ctx.cover("reach", [z3.BoolVal(bool(sites))])
    ctx.oblige("split-sites-copy-the-sign", [], z3.BoolVal(len(sites) == 2 and all(sites)), kind="frame", replay={"mirror": "corpus", "trait": "none"})
    # (b) semantic lemma for a chain of two links (the general case follows link by link)
    sign = ctx.sym("sign", ("enum", "Sign"))
    c1, c2 = z3.Bools("link1 link2")
    whole = sem.signed(sign.term, z3.And(c1, c2))
    split = z3.And(sem.signed(sign.term, c1), sem.signed(sign.term, c2))
    ctx.oblige(
        "split-chain-means-the-same",
        [],
        whole == split,
        kind="lemma",
        replay={"mirror": "chain_split"},
        exclude={"C05-negated-chain-split": sign.term == S["Negation"]},
    )


@unit("C05.exline_term", "C05", "ngo.normalize:exline_term", fallback={"mirror": "corpus", "trait": "none"})
def exline_term(ctx):
    """an arithmetic term t (unary / binary operation) is replaced by a variable A handed out by make_unique (fresh for the
    statement) together with the single positive literal A = t; every other term is returned unchanged with no literal"""
    m, ex = ctx.m, ctx.ex
    wf = wf_of(ctx)
    A = m.AST
    S = m.enums["Sign"][1]
    E = m.enums["ComparisonOperator"][1]
    st = ctx.state()
    term = ctx.sym("term", "ast")
    st.assume(wf.wf("term", term.term, 1))
    fresh_var = ctx.sym("fresh_variable", "ast")
    st.assume(A.is_Variable(fresh_var.term))

    def make_unique(e, s, a, k):
        s.log.append(("make_unique", a[1]))
        return [(s, fresh_var)]

    ex.overrides["ngo.utils.globals:UniqueVariables.make_unique"] = make_unique
    ctx.assume_note("make_unique is used through its contract (fresh variable, C07.make_unique)")
    uv = ctx.new_object(st, "UniqueVariables", _allvars=st.alloc(ListObj(items=())))
    res = ctx.call(st, ctx.fn("ngo.normalize", "exline_term"), [term, uv])
    ok, bad = returned(res)
    ctx.cover("reach", st)
    no_raise(ctx, "no-raise", res)
    ln, at = m.lst_funcs("ast")
    arith = z3.Or(A.is_BinaryOperation(term.term), A.is_UnaryOperation(term.term))
    for n, (s, r) in enumerate(ok):
        new_term, lits = r.items
        items = ex.B.concrete_items(s, lits)
        calls = [e for e in s.log if e[0] == "make_unique"]
        if items is None:
            ctx.oblige(f"post#{n}", s, z3.BoolVal(False))
            continue
        if not items:
            ctx.oblige(f"post-unchanged#{n}", s, z3.And(z3.Not(arith), new_term.term == term.term, z3.BoolVal(not calls)), replay={"mirror": "exline_term"})
            continue
        lit = items[0].term
        atom = A.Literal_atom(lit)
        g = at(A.Comparison_guards(atom), 0)
        ctx.oblige(
            f"post-exlined#{n}",
            s,
            z3.And(
                z3.BoolVal(len(items) == 1 and len(calls) == 1),
                arith,
                new_term.term == fresh_var.term,
                A.is_Literal(lit),
                A.Literal_sign(lit) == S["NoSign"],
                A.is_Comparison(atom),
                A.Comparison_term(atom) == fresh_var.term,
                ln(A.Comparison_guards(atom)) == 1,
                A.is_Guard(g),
                A.Guard_comparison(g) == E["Equal"],
                A.Guard_term(g) == term.term,
            ),
            replay={"mirror": "exline_term"},
        )
    ctx.inputs = {"term": term}
