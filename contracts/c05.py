"""C05 -- with every trait disabled the rewrite is meaning-preserving: normal-form kernels of ngo.normalize"""
from __future__ import annotations

import z3

from pyvc.unit import unit
from pyvc.values import SV, Fn

from .common import no_raise, returned, sem_of, wf_of
from .ops import _ops_units

_ops_units("C05", "C05")


@unit("C05.guards", "C05", "ngo.normalize:remove_unecessary_bounds.<locals>.replace", fallback={"mirror": "corpus", "trait": "none"})
def guards(ctx):
    """dropping #inf/#sup guards and moving a lone right guard to the left keeps the truth value of the
    guards for every aggregate value and every variable assignment; nothing else of the aggregate changes"""
    sem, wf, m = sem_of(ctx), wf_of(ctx), ctx.m
    agg = ctx.sym("bodyagg", "ast")
    st = ctx.state()
    st.assume(wf.wf("BodyAggregate", agg.term, depth=2))
    f = ctx.fn("ngo.normalize", "remove_unecessary_bounds.<locals>.replace", env_id=st.new_env({}))
    res = ctx.call(st, f, [agg])
    ok, bad = returned(res)
    ctx.cover("reach", st)
    v = z3.Const("agg_value", sem.Val)
    env = z3.Const("env", sem.Env)
    A = m.AST
    old = sem_guards(sem, A, agg.term, v, env)
    for i, (s, r) in enumerate(ok):
        new = sem_guards(sem, A, r.term, v, env)
        ctx.oblige(f"post-equiv#{i}", s, z3.And(A.is_BodyAggregate(r.term), old == new), replay={"mirror": "guards"})
        ctx.oblige(
            f"post-nf#{i}",
            s,
            z3.Implies(A.BodyAggregate_right_guard(r.term) != m.NoneAST, A.BodyAggregate_left_guard(r.term) != m.NoneAST),
            replay={"mirror": "guards"},
        )
        ctx.oblige(
            f"frame#{i}",
            s,
            z3.And(
                A.BodyAggregate_function(r.term) == A.BodyAggregate_function(agg.term),
                A.BodyAggregate_elements(r.term) == A.BodyAggregate_elements(agg.term),
            ),
            kind="frame",
            replay={"mirror": "guards"},
        )
    no_raise(ctx, "no-raise", res)


def sem_guards(sem, A, agg, v, env):
    return z3.And(sem.guard_left(A.BodyAggregate_left_guard(agg), v, env), sem.guard_right(A.BodyAggregate_right_guard(agg), v, env))
