"""C10 -- duplication: what replaces an occurrence of a factored-out literal set (ngo.literal_duplication)"""
from __future__ import annotations

import z3

from pyvc.state import fresh_id
from pyvc.unit import unit
from pyvc.values import SV, DictObj, ListObj, Obj, Opaque, Ref, Tup

from .common import no_raise, returned, wf_of

FB10 = {"mirror": "generated", "trait": "duplication"}
LA = ("list", "ast")


@unit("C10.rebuild", "C10", "ngo.literal_duplication:LiteralCollector.rebuild", fallback=FB10)
def rebuild(ctx):
    """the body that replaces an occurrence keeps every literal that is not one of the replaced literals and adds
    exactly one positive atom aux(variables); for an occurrence inside a conditional literal / a body-aggregate element
    only that conditional literal / that element is rebuilt (same head literal / same tuple), every other body literal
    and every other element of the aggregate is kept"""
    m, ex = ctx.m, ctx.ex
    wf = wf_of(ctx)
    A = m.AST
    S = m.enums["Sign"][1]
    for kind in ("Rule", "Minimize"):
        st = ctx.state()
        ln, at = m.lst_funcs("ast")
        ex.functional_lists = True
        ex.resolve_ctors = True
        rule = ctx.sym("rule", "ast")
        st.assume(wf.wf(kind, rule.term, 1))
        body = A.Rule_body(rule.term) if kind == "Rule" else A.Minimize_body(rule.term)
        name = ctx.sym("predicate_name", "str")
        vars_ref, vars_ = ctx.sym_list(st, "variables", "ast")
        orig_ref, orig = ctx.sym_list(st, "original_literals", "ast")
        sub, subsub = ctx.sym("sub_ast", "ast"), ctx.sym("sub_sub_ast", "ast")
        # shapes the collector produces: no sub_ast | a conditional literal of the body | an aggregate literal + one of its elements
        st.assume(z3.Or(sub.term == m.NoneAST, wf.wf("ConditionalLiteral", sub.term, 1), z3.And(A.is_Literal(sub.term), wf.wf("BodyAggregate", A.Literal_atom(sub.term), 2), wf.wf("BodyAggregateElement", subsub.term, 1))))
        prg = st.alloc(ListObj(items=(rule,)))
        me = ctx.new_object(st, "LiteralCollector", prg=prg)
        rb = ctx.new_object(st, "RuleRebuilder", ruleid=0, sub_ast=sub, sub_sub_ast=subsub, original_literals=orig_ref)
        res = ctx.call(st, ctx.method("ngo.literal_duplication", "LiteralCollector", "rebuild", me), [rb, name, vars_ref])
        ok, bad = returned(res)
        ctx.cover(f"reach[{kind}]", st)
        no_raise(ctx, f"no-raise[{kind}]", res, kind="assert")
        aux = A.Literal(S["NoSign"], A.SymbolicAtom(A.Function(name.term, vars_.term, z3.BoolVal(False))))
        q, j = z3.Int("q!rb"), z3.Int("j!rb")

        def mem(y, lst):
            jj = z3.Int(f"j!mem{fresh_id()}")
            return z3.Exists([jj], z3.And(0 <= jj, jj < ln(lst), at(lst, jj) == y))

        def keeps(new, old, removed, extra):
            """new = old without the members of `removed` (a list) resp. without the one element `removed`, plus `extra` last"""
            n_old = ln(new) - 1
            if isinstance(removed, tuple):  # ("list", term)
                gone = lambda x: mem(x, removed[1])
            else:
                gone = lambda x: x == removed
            return z3.And(
                n_old >= 0,
                at(new, n_old) == extra,
                z3.ForAll([q], z3.Implies(z3.And(0 <= q, q < n_old), z3.And(mem(at(new, q), old), z3.Not(gone(at(new, q))))), patterns=[at(new, q)]),
                z3.ForAll([q], z3.Implies(z3.And(0 <= q, q < ln(old), z3.Not(gone(at(old, q)))), z3.Exists([j], z3.And(0 <= j, j < n_old, at(new, j) == at(old, q)))), patterns=[at(old, q)]),
            )

        for n, (s, r) in enumerate(ok):
            R = ex.to_term(s, r, LA)
            last = at(R, ln(R) - 1)
            plain = sub.term == m.NoneAST
            cond = A.is_ConditionalLiteral(sub.term)
            ctx.oblige(f"post-plain-occurrence[{kind}]#{n}", s, z3.Implies(plain, keeps(R, body, ("list", orig.term), aux)), replay=FB10)
            ctx.oblige(
                f"post-occurrence-in-conditional-literal[{kind}]#{n}",
                s,
                z3.Implies(
                    z3.And(z3.Not(plain), cond),
                    z3.And(
                        keeps(R, body, sub.term, last),
                        A.is_ConditionalLiteral(last),
                        A.ConditionalLiteral_literal(last) == A.ConditionalLiteral_literal(sub.term),
                        keeps(A.ConditionalLiteral_condition(last), A.ConditionalLiteral_condition(sub.term), ("list", orig.term), aux),
                    ),
                ),
                replay=FB10,
            )
            agg, nagg = A.Literal_atom(sub.term), A.Literal_atom(last)
            nel = at(A.BodyAggregate_elements(nagg), ln(A.BodyAggregate_elements(nagg)) - 1)
            ctx.oblige(
                f"post-occurrence-in-aggregate-element[{kind}]#{n}",
                s,
                z3.Implies(
                    z3.And(z3.Not(plain), z3.Not(cond)),
                    z3.And(
                        keeps(R, body, sub.term, last),
                        A.is_Literal(last),
                        A.Literal_sign(last) == A.Literal_sign(sub.term),
                        A.is_BodyAggregate(nagg),
                        A.BodyAggregate_function(nagg) == A.BodyAggregate_function(agg),
                        A.BodyAggregate_left_guard(nagg) == A.BodyAggregate_left_guard(agg),
                        A.BodyAggregate_right_guard(nagg) == A.BodyAggregate_right_guard(agg),
                        keeps(A.BodyAggregate_elements(nagg), A.BodyAggregate_elements(agg), subsub.term, nel),
                        A.is_BodyAggregateElement(nel),
                        A.BodyAggregateElement_terms(nel) == A.BodyAggregateElement_terms(subsub.term),
                        keeps(A.BodyAggregateElement_condition(nel), A.BodyAggregateElement_condition(subsub.term), ("list", orig.term), aux),
                    ),
                ),
                replay=FB10,
            )
    ctx.inputs.clear()
