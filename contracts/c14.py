"""C14 -- math: operator algebra kernel (see DESIGN 4/C14)"""
from .ops import _ops_units

_ops_units("C14", "C14")

import z3  # noqa: E402

from pyvc.state import fresh_id  # noqa: E402
from pyvc.unit import unit  # noqa: E402
from pyvc.values import SV, DictObj, ListObj, Obj, Opaque, Ref, Tup  # noqa: E402

from .common import no_raise, returned, sem_of, wf_of  # noqa: E402

FB14 = {"mirror": "to_sympy"}


@unit("C14.to_sympy", "C14", "ngo.math_simplification:Goebner.to_sympy", fallback=FB14)
def to_sympy(ctx):
    """a body literal is handed to the algebra as relations that mean exactly the literal: a comparison `t1 op t2` under
    sign s becomes the single relation (t1, op', t2) with op' = negate(op) if s is `not`, op otherwise (`not not` counts
    as positive); an aggregate literal `l opL #agg opR r` becomes (l, opL', A) and (A, opR', r) for one placeholder A
    that is mapped to the aggregate without its guards -- a negated aggregate with two guards is given up (a
    disjunction cannot be expressed), and so is a #sum+ aggregate unless all its weights are non-negative numbers (the
    algebra scales and merges it as a #sum); everything else is given up (None)"""
    sem, m, ex = sem_of(ctx), ctx.m, ctx.ex
    wf = wf_of(ctx)
    A = m.AST
    S = m.enums["Sign"][1]
    st = ctx.state()
    lit = ctx.sym("literal", "ast")
    st.assume(wf.wf("body_literal", lit.term, 3))
    ln, at = m.lst_funcs("ast")
    atom = A.Literal_atom(lit.term)
    # normal form (C05): comparisons are binary, a right guard only together with a left guard
    st.assume(z3.Implies(z3.And(A.is_Literal(lit.term), A.is_Comparison(atom)), ln(A.Comparison_guards(atom)) == 1))
    st.assume(z3.Implies(z3.And(A.is_Literal(lit.term), A.is_BodyAggregate(atom), A.BodyAggregate_right_guard(atom) != m.NoneAST), A.BodyAggregate_left_guard(atom) != m.NoneAST))
    me = ctx.new_object(st, "Goebner", _sym2agg=st.alloc(DictObj()), help_neq_vars=st.alloc(DictObj()), _fo_vars=st.alloc(DictObj()))
    term_ok = ex.ufunc("sympy_term_ok", [m.AST], z3.BoolSort())

    def to_term(e, s, a, k):
        out = []
        for s2, b in e.branch(s, term_ok(a[1].term)):
            out.append((s2, Tup(("expr", a[1]))) if b else (s2, None))
        return out

    def to_equality(e, s, a, k):
        s.log.append(("relation", a[1], a[2], a[3]))
        return [(s, Opaque("relation"))]

    ex.overrides["ngo.math_simplification:Goebner._to_sympy_term"] = to_term
    ex.overrides["ngo.math_simplification:Goebner._to_equality"] = to_equality
    dummy = Tup(("dummy",))
    ex.opaque_handlers["sympy.Dummy"] = lambda e, s, a, k: [(s, dummy)]
    ctx.assume_note("_to_sympy_term is uninterpreted (may give up); _to_equality(l, op, r) is taken to mean `l op r` (its slack encoding is not verified); sympy.Dummy is a placeholder")
    res = ctx.call(st, ctx.method("ngo.math_simplification", "Goebner", "to_sympy", me), [lit])
    ok, bad = returned(res)
    ctx.cover("reach", st)
    no_raise(ctx, "no-raise", res, kind="assert")
    a_, b_ = z3.Ints("va vb")
    neg = A.Literal_sign(lit.term) == S["Negation"]

    def meaning(op_expected, op_got):
        """`a op_expected b` under the literal's sign  <=>  `a op_got b`"""
        return sem.signed(A.Literal_sign(lit.term), sem.cmp_int(op_expected, a_, b_)) == sem.cmp_int(op_got, a_, b_)

    n_rel = 0
    for n, (s, r) in enumerate(ok):
        rels = [e for e in s.log if e[0] == "relation"]
        if r is None:
            ctx.oblige(f"given-up-without-relations#{n}", s, z3.BoolVal(True), kind="frame")
            continue
        n_rel += 1
        # a #sum+ aggregate is only handed to the algebra (which treats it as a #sum) if it equals a #sum
        kq = z3.Int("k!sp")
        elq = at(A.BodyAggregate_elements(atom), kq)
        wq = at(A.BodyAggregateElement_terms(elq), 0)
        Sy = m.Sym
        ctx.oblige(
            f"sum-plus-only-with-non-negative-numbers#{n}",
            s,
            z3.Implies(
                z3.And(A.is_BodyAggregate(atom), A.BodyAggregate_function(atom) == m.enums["AggregateFunction"][1]["SumPlus"]),
                z3.ForAll([kq], z3.Implies(z3.And(0 <= kq, kq < ln(A.BodyAggregate_elements(atom))), z3.And(ln(A.BodyAggregateElement_terms(elq)) > 0, A.is_SymbolicTerm(wq), Sy.is_SymNumber(A.SymbolicTerm_symbol(wq)), Sy.sym_number(A.SymbolicTerm_symbol(wq)) >= 0))),
            ),
            replay=FB14,
        )
        items = ex.B.concrete_items(s, r)
        ctx.oblige(f"one-relation-per-result#{n}", s, z3.BoolVal(items is not None and len(items) == len(rels) and len(rels) in (1, 2)), kind="frame", replay=FB14)
        if items is None or len(items) != len(rels):
            continue
        is_cmp = A.is_Comparison(atom)
        g = at(A.Comparison_guards(atom), 0)
        lg, rg = A.BodyAggregate_left_guard(atom), A.BodyAggregate_right_guard(atom)

        def side(v):
            """the AST term a relation side stands for (None for the aggregate placeholder)"""
            if isinstance(v, Tup) and v.items and v.items[0] == "expr":
                return v.items[1].term
            return None

        if len(rels) == 1:
            _, l, op, rr = rels[0]
            lt, rt = side(l), side(rr)
            # comparison literal, or aggregate with a left guard only
            cmp_case = z3.And(is_cmp, z3.BoolVal(lt is not None and rt is not None))
            conds = []
            if lt is not None and rt is not None:
                conds.append(z3.And(is_cmp, lt == A.Comparison_term(atom), rt == A.Guard_term(g), meaning(A.Guard_comparison(g), op.term)))
            if lt is not None and rt is None:
                conds.append(z3.And(A.is_BodyAggregate(atom), rg == m.NoneAST, lt == A.Guard_term(lg), meaning(A.Guard_comparison(lg), op.term), z3.BoolVal(rr == dummy)))
            ctx.oblige(f"relation-means-the-literal#{n}", s, z3.Or(*conds) if conds else z3.BoolVal(False), replay=FB14)
        else:
            (_, l1, op1, r1), (_, l2, op2, r2) = rels
            lt, rt = side(l1), side(r2)
            good = lt is not None and rt is not None and r1 == dummy and l2 == dummy
            ctx.oblige(
                f"two-guards-mean-the-literal#{n}",
                s,
                z3.And(
                    z3.BoolVal(bool(good)),
                    A.is_BodyAggregate(atom),
                    z3.Not(neg),
                    (lt == A.Guard_term(lg)) if good else z3.BoolVal(False),
                    (rt == A.Guard_term(rg)) if good else z3.BoolVal(False),
                    meaning(A.Guard_comparison(lg), op1.term),
                    meaning(A.Guard_comparison(rg), op2.term),
                ),
                replay=FB14,
            )
        if len(rels) >= 1 and not (isinstance(rels[0][3], Tup) and rels[0][3].items and rels[0][3].items[0] == "expr" and len(rels) == 1):
            # aggregate: the placeholder is mapped to the aggregate without its guards
            d = s.heap[s.heap[me.id].get("_sym2agg").id]
            mapped = [v for k_, v in d.items if k_ == dummy]
            okm = len(mapped) == 1
            ctx.oblige(
                f"placeholder-is-the-guardless-aggregate#{n}",
                s,
                z3.And(
                    z3.BoolVal(okm),
                    (mapped[0].term == A.BodyAggregate(m.NoneAST, A.BodyAggregate_function(atom), A.BodyAggregate_elements(atom), m.NoneAST)) if okm else z3.BoolVal(False),
                ),
                kind="frame",
                replay=FB14,
            )
    ctx.cover("some-relation-path", [z3.BoolVal(n_rel > 0)])


@unit("C14.combine-tail", "C14", "ngo.math_simplification:Goebner.combine", fallback={"mirror": "corpus", "trait": "math"})
def combine_tail(ctx):
    """MECHANICAL EXTRACTION of the end of Goebner.combine: the statements that follow its balancing loop (`for both in
    ...`) in the same block, taken from the real syntax tree on every run and executed unchanged.  What the extraction
    DROPS: everything before them (sympy `collect`, the search for the factors, the balancing loop); it is replaced by
    the ASSUMPTION that this prefix did its job: factor1, factor2 are non-zero integers and the two middle expressions
    agree after scaling (mid1*factor1 = mid2*factor2, under the arbitrary but fixed assignment of the variables for
    which the expressions are evaluated -- expressions are modelled by their integer values).
    Proved for the extracted statements: the returned pair of guards `lhs opl mid opr rhs` holds exactly when both
    relations `l1 op1 m1` and `l2 op2 m2` hold (scaling by a negative factor mirrors the operator, strictness kept)."""
    import ast as pyast

    from pyvc.exec import Frame
    from pyvc.values import Fn

    sem, m, ex = sem_of(ctx), ctx.m, ctx.ex
    C = m.enums["ComparisonOperator"][1]
    f = ex.find_function("ngo.math_simplification", "Goebner.combine")
    # locate: the `if common and ...:` block, inside it the balancing For loop, and the statements after that loop
    tail = None
    for node in pyast.walk(f.node):
        if isinstance(node, pyast.If):
            for i, stmt in enumerate(node.body):
                if isinstance(stmt, pyast.For) and isinstance(stmt.target, pyast.Name) and stmt.target.id == "both" and i + 1 < len(node.body):
                    tail = node.body[i + 1 :]
    ctx.oblige("extraction-found-the-tail", [], z3.BoolVal(tail is not None and any(isinstance(s_, pyast.Return) for s_ in tail)), kind="assert")
    if tail is None:
        return
    st = ctx.state()
    l1, m1, l2, m2 = (ctx.sym(n_, "int") for n_ in ("l1", "m1", "l2", "m2"))
    op1, op2 = ctx.sym("op1", ("enum", "ComparisonOperator")), ctx.sym("op2", ("enum", "ComparisonOperator"))
    f1, f2 = ctx.sym("factor1", "int"), ctx.sym("factor2", "int")
    st.assume(f1.term != 0, f2.term != 0, m1.term * f1.term == m2.term * f2.term)
    relations = st.alloc(ListObj(items=(Tup((l1, op1, m1)), Tup((l2, op2, m2)))))
    eid = st.new_env({"relations": relations, "first": 0, "second": 1, "factor1": f1, "factor2": f2, "self": ctx.new_object(st, "Goebner")})
    fn = Fn(f.node, f.module, f.qualname, None, None, f.cls, f.is_static)
    fr = Frame(f.module, f.qualname, eid, fn)
    ex.functions_seen.setdefault("ngo.math_simplification:Goebner.combine", (ex.module_path(f.module), f.node.lineno))
    outs = ex.exec_block(tail, st, fr)
    ctx.cover("reach", st)
    ctx.assume_note("combine: only the statements after the balancing loop are under contract (mechanical extraction); assumed for the dropped prefix: factor1 != 0, factor2 != 0, mid1*factor1 == mid2*factor2; sympy expressions are modelled by their integer values under an arbitrary assignment; nonlinear integer arithmetic is left to z3")
    n_ret = 0
    for n, (s, o) in enumerate(outs):
        if o.kind == "raise":
            ctx.oblige(f"no-raise#{n}:{o.exc}", s, z3.BoolVal(False), kind="assert")
            continue
        if o.kind != "return" or not isinstance(o.value, Tup) or len(o.value.items) != 5:
            ctx.oblige(f"returns-a-five-tuple#{n}", s, z3.BoolVal(False), kind="frame")
            continue
        n_ret += 1
        lhs, opl, mid, opr, rhs = (ex.to_term(s, x, ty) for x, ty in zip(o.value.items, ("int", ("enum", "ComparisonOperator"), "int", ("enum", "ComparisonOperator"), "int")))
        both = z3.And(sem.cmp_int(op1.term, l1.term, m1.term), sem.cmp_int(op2.term, l2.term, m2.term))
        pair = z3.And(sem.cmp_int(opl, lhs, mid), sem.cmp_int(opr, mid, rhs))
        # split by operator pair: 36 small nonlinear queries instead of one with symbolic operators
        for a_name, a in C.items():
            for b_name, b in C.items():
                ctx.oblige(f"pair-means-both-relations[{a_name},{b_name}]#{n}", s, z3.Implies(z3.And(op1.term == a, op2.term == b), pair == both), replay={"mirror": "corpus", "trait": "math"})
    ctx.cover("some-return", [z3.BoolVal(n_ret > 0)])
    ctx.inputs.clear()


def _expr_model(ctx):
    """sympy expressions as integer identifiers: is_const(e) / int(e) / sympy2ast(e) are uninterpreted in e"""
    m, ex = ctx.m, ctx.ex
    is_const = ex.ufunc("expr_is_const", [z3.IntSort()], z3.BoolSort())
    ast_of = ex.ufunc("expr_ast", [z3.IntSort()], m.AST)
    ex.overrides["ngo.math_simplification:Goebner.is_const"] = lambda e, s, a, k: [(s, SV(is_const(e.to_term(s, a[-1], "int")), "bool"))]
    ex.overrides["ngo.math_simplification:Goebner.sympy2ast"] = lambda e, s, a, k: [(s, SV(ast_of(e.to_term(s, a[-1], "int")), "ast"))]
    ctx.assume_note("sympy expressions are integer identifiers; for a constant expression the identifier is its value (int(e) = e); is_const and sympy2ast are uninterpreted; sympy2ast(e) is assumed to be a term or body aggregate that denotes e")
    return is_const, ast_of


@unit("C14.relation2ast", "C14", "ngo.math_simplification:Goebner.relation2ast", fallback={"mirror": "corpus", "trait": "math"})
def relation2ast(ctx):
    """the literal built for a relation `lhs op rhs` is: the truth value of `lhs op rhs` if both sides are constants;
    the aggregate of rhs with the LEFT guard `lhs op` if rhs is an aggregate; the comparison `lhs op rhs` otherwise --
    sides and operator in this order"""
    sem, m, ex = sem_of(ctx), ctx.m, ctx.ex
    A = m.AST
    is_const, ast_of = _expr_model(ctx)
    st = ctx.state()
    lhs, rhs = ctx.sym("lhs", "int"), ctx.sym("rhs", "int")
    op = ctx.sym("op", ("enum", "ComparisonOperator"))
    st.assume(ast_of(lhs.term) != m.NoneAST, ast_of(rhs.term) != m.NoneAST)
    me = ctx.new_object(st, "Goebner")
    res = ctx.call(st, ctx.method("ngo.math_simplification", "Goebner", "relation2ast", me), [lhs, op, rhs])
    ok, bad = returned(res)
    ctx.cover("reach", st)
    no_raise(ctx, "no-raise", res, kind="assert")
    ln, at = m.lst_funcs("ast")
    ra = ast_of(rhs.term)
    for n, (s, r) in enumerate(ok):
        rt = ex.to_term(s, r, "ast")
        both_const = z3.And(is_const(lhs.term), is_const(rhs.term))
        g = at(A.Comparison_guards(rt), 0)
        ctx.oblige(
            f"post#{n}",
            s,
            z3.And(
                z3.Implies(both_const, z3.And(A.is_BooleanConstant(rt), A.BooleanConstant_value(rt) == sem.cmp_int(op.term, lhs.term, rhs.term))),
                z3.Implies(
                    z3.And(z3.Not(both_const), A.is_BodyAggregate(ra)),
                    rt == A.BodyAggregate(A.Guard(op.term, ast_of(lhs.term)), A.BodyAggregate_function(ra), A.BodyAggregate_elements(ra), A.BodyAggregate_right_guard(ra)),
                ),
                z3.Implies(
                    z3.And(z3.Not(both_const), z3.Not(A.is_BodyAggregate(ra))),
                    z3.And(A.is_Comparison(rt), A.Comparison_term(rt) == ast_of(lhs.term), ln(A.Comparison_guards(rt)) == 1, g == A.Guard(op.term, ra)),
                ),
            ),
            replay={"mirror": "corpus", "trait": "math"},
        )
    ctx.inputs.clear()


@unit("C14.double_relation2ast", "C14", "ngo.math_simplification:Goebner.double_relation2ast", fallback={"mirror": "corpus", "trait": "math"})
def double_relation2ast(ctx):
    """the literal built for `lhs opl mid opr rhs`: with a constant mid and a constant outer side the constant link is
    evaluated (a false link gives #false, a true one leaves the other link, built by relation2ast with its sides in
    order); otherwise the aggregate of mid with LEFT guard `lhs opl` and RIGHT guard `opr rhs`, or the chain
    `lhs opl mid opr rhs`"""
    sem, m, ex = sem_of(ctx), ctx.m, ctx.ex
    A = m.AST
    is_const, ast_of = _expr_model(ctx)
    st = ctx.state()
    lhs, mid, rhs = ctx.sym("lhs", "int"), ctx.sym("mid", "int"), ctx.sym("rhs", "int")
    opl, opr = ctx.sym("opl", ("enum", "ComparisonOperator")), ctx.sym("opr", ("enum", "ComparisonOperator"))
    for e_ in (lhs, mid, rhs):
        st.assume(ast_of(e_.term) != m.NoneAST)
    R2 = ex.ufunc("relation2ast", [z3.IntSort(), m.sort(("enum", "ComparisonOperator")), z3.IntSort()], m.AST)
    ex.overrides["ngo.math_simplification:Goebner.relation2ast"] = lambda e, s, a, k: [(s, SV(R2(e.to_term(s, a[-3], "int"), e.to_term(s, a[-2], ("enum", "ComparisonOperator")), e.to_term(s, a[-1], "int")), "ast"))]
    ctx.assume_note("relation2ast is used through its contract (C14.relation2ast): here an uninterpreted function of (lhs, op, rhs)")
    me = ctx.new_object(st, "Goebner")
    res = ctx.call(st, ctx.method("ngo.math_simplification", "Goebner", "double_relation2ast", me), [lhs, opl, mid, opr, rhs])
    ok, bad = returned(res)
    ctx.cover("reach", st)
    no_raise(ctx, "no-raise", res, kind="assert")
    ln, at = m.lst_funcs("ast")
    ma = ast_of(mid.term)
    cm, cl, cr = is_const(mid.term), is_const(lhs.term), is_const(rhs.term)
    left_true = sem.cmp_int(opl.term, lhs.term, mid.term)
    right_true = sem.cmp_int(opr.term, mid.term, rhs.term)
    for n, (s, r) in enumerate(ok):
        rt = ex.to_term(s, r, "ast")
        g0, g1 = at(A.Comparison_guards(rt), 0), at(A.Comparison_guards(rt), 1)
        const_left = z3.And(cm, cl)
        const_right = z3.And(cm, z3.Not(cl), cr)
        general = z3.Not(z3.Or(const_left, const_right))
        ctx.oblige(
            f"post#{n}",
            s,
            z3.And(
                z3.Implies(z3.And(const_left, left_true), rt == R2(mid.term, opr.term, rhs.term)),
                z3.Implies(z3.And(const_left, z3.Not(left_true)), z3.And(A.is_BooleanConstant(rt), z3.Not(A.BooleanConstant_value(rt)))),
                z3.Implies(z3.And(const_right, right_true), rt == R2(lhs.term, opl.term, mid.term)),
                z3.Implies(z3.And(const_right, z3.Not(right_true)), z3.And(A.is_BooleanConstant(rt), z3.Not(A.BooleanConstant_value(rt)))),
                z3.Implies(
                    z3.And(general, A.is_BodyAggregate(ma)),
                    rt == A.BodyAggregate(A.Guard(opl.term, ast_of(lhs.term)), A.BodyAggregate_function(ma), A.BodyAggregate_elements(ma), A.Guard(opr.term, ast_of(rhs.term))),
                ),
                z3.Implies(
                    z3.And(general, z3.Not(A.is_BodyAggregate(ma))),
                    z3.And(A.is_Comparison(rt), A.Comparison_term(rt) == ast_of(lhs.term), ln(A.Comparison_guards(rt)) == 2, g0 == A.Guard(opl.term, ma), g1 == A.Guard(opr.term, ast_of(rhs.term))),
                ),
            ),
            replay={"mirror": "corpus", "trait": "math"},
        )
    ctx.inputs.clear()
