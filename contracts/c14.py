"""C14 -- math: operator algebra kernel (see DESIGN 4/C14)"""
from .ops import _ops_units

_ops_units("C14", "C14")
