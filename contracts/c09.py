"""C09 -- unused: what may be removed / shrunk (ngo.unused.UnusedTranslator)"""
from __future__ import annotations

import z3

from pyvc.loops import LoopSpec
from pyvc.state import fresh_id
from pyvc.unit import unit
from pyvc.values import SV, DictObj, ListObj, Obj, Opaque, Ref, SetObj

from .common import install_collect_ast, no_raise, returned, wf_of

PRED = ("rec", "Predicate")
SP = ("set", PRED)
LA = ("list", "ast")
FB = {"mirror": "corpus", "trait": "unused"}


def _mentions(f, t):
    """does the z3 term t occur in formula f"""
    seen, stack = set(), [f]
    while stack:
        e = stack.pop()
        if e.get_id() in seen:
            continue
        seen.add(e.get_id())
        if e.eq(t):
            return True
        if z3.is_quantifier(e):
            stack.append(e.body())
        elif z3.is_app(e):
            stack.extend(e.children())
    return False


def _constants(f):
    """uninterpreted constants (0-ary, non-numeral) of a formula"""
    out, seen, stack = [], set(), [f]
    while stack:
        e = stack.pop()
        if e.get_id() in seen:
            continue
        seen.add(e.get_id())
        if z3.is_quantifier(e):
            stack.append(e.body())
        elif z3.is_app(e):
            if e.num_args() == 0 and e.decl().kind() == z3.Z3_OP_UNINTERPRETED:
                out.append(e)
            stack.extend(e.children())
    return out


def _has_quantifier(f):
    seen, stack = set(), [f]
    while stack:
        e = stack.pop()
        if e.get_id() in seen:
            continue
        seen.add(e.get_id())
        if z3.is_quantifier(e):
            return True
        if z3.is_app(e):
            stack.extend(e.children())
    return False


def _usage_object(ctx, st, used=None, used_positions=None, inp=None, outp=None):
    m = ctx.m
    fields = dict(
        used=st.alloc(SetObj(sv=used)) if used is not None else st.alloc(SetObj(items=())),
        used_positions=used_positions if used_positions is not None else st.alloc(DictObj((), "set")),
        _anon=SV(m.AST.Variable(m.strlit("_")), "ast"),
        input_predicates=inp if inp is not None else st.alloc(ListObj(items=())),
        output_predicates=outp if outp is not None else st.alloc(ListObj(items=())),
    )
    return ctx.new_object(st, "UnusedTranslator", **fields)


@unit("C09.remove_unused", "C09", "ngo.unused:UnusedTranslator.remove_unused", fallback=FB)
def remove_unused(ctx):
    """remove_unused only drops rules with a positive plain head atom whose predicate is not recorded as used; every other
    statement is kept, and nothing is invented"""
    m, ex = ctx.m, ctx.ex
    wf = wf_of(ctx)
    A = m.AST
    S = m.enums["Sign"][1]
    st = ctx.state()
    prg_ref, prg = ctx.sym_list(st, "prg", "ast")
    ln, at = m.lst_funcs("ast")
    i0 = z3.Int("i!wf")
    st.assume(z3.ForAll([i0], z3.Implies(z3.And(0 <= i0, i0 < ln(prg.term)), wf.wf("statement", at(prg.term, i0), 3)), patterns=[at(prg.term, i0)]))
    used = ctx.sym("used", SP)
    me = _usage_object(ctx, st, used=used)
    res = ctx.call(st, ctx.method("ngo.unused", "UnusedTranslator", "remove_unused", me), [prg_ref])
    ok, bad = returned(res)
    ctx.cover("reach", st)
    no_raise(ctx, "no-raise", res)
    i, j = z3.Int("i!ru"), z3.Int("j!ru")

    def droppable(x):
        h = A.Rule_head(x)
        sym = A.SymbolicAtom_symbol(A.Literal_atom(h))
        return z3.And(
            A.is_Rule(x),
            A.is_Literal(h),
            A.Literal_sign(h) == S["NoSign"],
            A.is_SymbolicAtom(A.Literal_atom(h)),
            A.is_Function(sym),
            z3.Not(z3.Select(used.term, m.rec_ctor("Predicate")(A.Function_name(sym), ln(A.Function_arguments(sym))))),
        )

    for n, (s, r) in enumerate(ok):
        rt = ex.to_term(s, r, LA)
        inres = lambda x: z3.Exists([j], z3.And(0 <= j, j < ln(rt), at(rt, j) == x))
        ctx.oblige(f"post-only-unused-plain-heads-dropped#{n}", s, z3.ForAll([i], z3.Implies(z3.And(0 <= i, i < ln(prg.term), z3.Not(inres(at(prg.term, i)))), droppable(at(prg.term, i)))), replay={"mirror": "remove_unused"})
        # proved from what the state says about the result list alone (the summary of the filtering loop); the other
        # facts of the state (well-formedness of every statement) only slow the solver down
        about_result = [f for f in s.pc if _mentions(f, rt)]
        # ... and about the (empty) list the accumulation started from, which those facts refer to
        consts = {c.get_id(): c for f in about_result for c in _constants(f) if not c.eq(prg.term) and not c.eq(rt)}
        about_result += [f for f in s.pc if not _mentions(f, rt) and not _has_quantifier(f) and any(_mentions(f, c) for c in consts.values())]
        ctx.oblige(f"post-nothing-invented#{n}", about_result, z3.ForAll([j], z3.Implies(z3.And(0 <= j, j < ln(rt)), z3.Exists([i], z3.And(0 <= i, i < ln(prg.term), at(prg.term, i) == at(rt, j)))), patterns=[at(rt, j)]), kind="frame", replay={"mirror": "remove_unused"})
    ctx.inputs.clear()


@unit("C09.interface-positions-used", "C09", "ngo.unused:UnusedTranslator.analyze_usage", fallback=FB)
def interface_positions(ctx):
    """after analyze_usage every declared input / output predicate and every predicate named by a #show / #project
    signature is recorded as used at all of its argument positions (so it keeps its name and all arguments)"""
    m, ex = ctx.m, ctx.ex
    wf = wf_of(ctx)
    A = m.AST
    st = ctx.state()
    prg_ref, prg = ctx.sym_list(st, "prg", "ast")
    ln, at = m.lst_funcs("ast")
    i0 = z3.Int("i!wf")
    st.assume(z3.ForAll([i0], z3.Implies(z3.And(0 <= i0, i0 < ln(prg.term)), wf.wf("statement", at(prg.term, i0), 3)), patterns=[at(prg.term, i0)]))
    in_ref, inp = ctx.sym_list(st, "input_predicates", PRED)
    out_ref, outp = ctx.sym_list(st, "output_predicates", PRED)
    lnP, atP = m.lst_funcs(PRED)
    ar = m.rec_acc("Predicate", "arity")
    q = z3.Int("q!ar")
    for l in (inp, outp):
        st.assume(z3.ForAll([q], z3.Implies(z3.And(0 <= q, q < lnP(l.term)), ar(atP(l.term, q)) >= 0)))
    install_collect_ast(ctx)
    me = _usage_object(ctx, st, inp=in_ref, outp=out_ref)
    key = ("ngo.unused:UnusedTranslator.analyze_usage", 0)
    p, x, i = z3.Const("p!iu", m.sort(PRED)), z3.Int("x!iu"), z3.Int("i!iu")

    def sig_pred(stm):
        return z3.If(A.is_ShowSignature(stm), m.rec_ctor("Predicate")(A.ShowSignature_name(stm), A.ShowSignature_arity(stm)), m.rec_ctor("Predicate")(A.ProjectSignature_name(stm), A.ProjectSignature_arity(stm)))

    def is_sig(stm):
        return z3.Or(A.is_ShowSignature(stm), A.is_ProjectSignature(stm))

    def fully_used(state, pr):
        o = state.heap[me.id]
        usedt = ex.to_term(state, o.get("used"), SP)
        d = state.heap[o.get("used_positions").id]
        if d.sym is None:
            return z3.BoolVal(False)
        arr = d.sym[2]
        return z3.And(z3.Select(usedt, pr), z3.ForAll([x], z3.Implies(z3.And(0 <= x, x < ar(pr)), z3.Select(z3.Select(arr, pr), x))))

    def inv(c):
        d = c.st.heap[c.st.heap[me.id].get("used_positions").id]
        if d.sym is None:
            return z3.BoolVal(z3.is_int_value(c.k) and c.k.as_long() == 0)
        return z3.ForAll([i], z3.Implies(z3.And(0 <= i, i < c.k, is_sig(at(prg.term, i))), fully_used(c.st, sig_pred(at(prg.term, i)))))

    ex.loop_specs[key] = LoopSpec(inv=inv, modifies={"self.used": SP, "self.used_positions": ("dictset", PRED, "int")}, name="signatures seen so far are fully used")
    res = ctx.call(st, ctx.method("ngo.unused", "UnusedTranslator", "analyze_usage", me), [prg_ref])
    ok, bad = returned(res)
    ctx.cover("reach", st)
    no_raise(ctx, "no-raise", res)
    for n, (s, _r) in enumerate(ok):
        for tag, l in (("input", inp), ("output", outp)):
            ctx.oblige(f"post-{tag}-predicates-fully-used#{n}", s, z3.ForAll([q], z3.Implies(z3.And(0 <= q, q < lnP(l.term)), fully_used(s, atP(l.term, q)))), replay={"mirror": "interface_positions"})
        ctx.oblige(f"post-signatures-fully-used#{n}", s, z3.ForAll([i], z3.Implies(z3.And(0 <= i, i < ln(prg.term), is_sig(at(prg.term, i))), fully_used(s, sig_pred(at(prg.term, i))))), replay={"mirror": "interface_positions"})
    ctx.adopt_engine_obligations(source="property", replay={"mirror": "interface_positions"})
    ctx.inputs.clear()
