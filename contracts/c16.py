"""C16 -- projection: legality conditions of a rule split (ngo.projection.good_split / project_rule)"""
from __future__ import annotations

import z3

from pyvc.state import fresh_id
from pyvc.unit import unit
from pyvc.values import SV, ListObj, Ref, SetObj, Tup

from .common import no_raise, returned, wf_of

LA = ("list", "ast")
SA = ("set", "ast")


class BindingAbs:
    """ngo's binding analysis as uninterpreted set-valued functions (the analysis itself is *assumed* to
    over-approximate gringo's safety; here only what good_split does with its results is verified)"""

    def __init__(self, ctx):
        ex, m = self.ex, self.m = ctx.ex, ctx.m
        self.B = ex.ufunc("B_bound", [m.sort(LA), m.sort(SA)], m.sort(SA))
        self.UB = ex.ufunc("UB_unbound", [m.sort(LA), m.sort(SA)], m.sort(SA))
        self.NB = ex.ufunc("H_needbound", [m.AST, m.sort(LA)], m.sort(SA))
        self.NNB = ex.ufunc("H_noboundneeded", [m.AST, m.sort(LA)], m.sort(SA))
        self.collect = {}
        self.empty = z3.K(m.AST, False)
        self.anon = m.AST.Variable(m.strlit("_"))
        ctx.assume_note("collect_binding_information_body/head and collect_ast are uninterpreted (B, UB, NB, NNB, V): ngo's binding analysis is assumed to over-approximate gringo's safety check")

        def cbib(e, s, a, k):
            lst = e.to_term(s, a[0], LA)
            pre = a[1] if len(a) > 1 else k.get("prebound")
            pt = self.empty if pre is None else e.to_term(s, pre, SA)
            s.log.append(("cbib", lst, pt))
            b = s.alloc(SetObj(sv=SV(self.B(lst, pt), SA)))
            u = s.alloc(SetObj(sv=SV(self.UB(lst, pt), SA)))
            return [(s, Tup((b, u)))]

        def cbih(e, s, a, k):
            body = e.to_term(s, a[1], LA) if not (isinstance(a[1], Ref) and s.heap[a[1].id].items == ()) else self.nil(s)
            b = s.alloc(SetObj(sv=SV(self.NB(a[0].term, body), SA)))
            u = s.alloc(SetObj(sv=SV(self.NNB(a[0].term, body), SA)))
            return [(s, Tup((b, u)))]

        def collect_ast(e, s, a, k):
            name = a[1] if len(a) > 1 else k.get("ast_name")
            f = self.V(name)
            return [(s, s.alloc(ListObj(sv=SV(f(a[0].term), LA))))]

        ex.overrides["ngo.utils.ast:collect_binding_information_body"] = cbib
        ex.overrides["ngo.utils.ast:collect_binding_information_head"] = cbih
        ex.overrides["ngo.utils.ast:collect_ast"] = collect_ast

    def V(self, name):
        if name not in self.collect:
            self.collect[name] = self.ex.ufunc("collect_" + name, [self.m.AST], self.m.sort(LA))
        return self.collect[name]

    def nil(self, s):
        if not hasattr(self, "_nil"):
            self._nil = z3.Const("nil_ast_list", self.m.sort(LA))
        s.assume(self.m.len(self._nil, "ast") == 0)
        return self._nil

    def GV(self, lst):
        return z3.SetUnion(self.B(lst, self.empty), self.UB(lst, self.empty))

    def GVH(self, s, head):
        n = self.nil(s)
        return z3.SetUnion(self.NB(head, n), self.NNB(head, n))

    def vars_of_list(self, lst, x):
        """x is a non-anonymous variable collected from some element of lst"""
        m = self.m
        ln, at = m.lst_funcs("ast")
        i, j = z3.Int(f"i!v{fresh_id()}"), z3.Int(f"j!v{fresh_id()}")
        c = self.V("Variable")(at(lst, i))
        return z3.And(x != self.anon, z3.Exists([i, j], z3.And(0 <= i, i < ln(lst), 0 <= j, j < ln(c), at(c, j) == x)))


@unit("C16.good_split", "C16", "ngo.projection:ProjectionTranslator.good_split", fallback={"mirror": "corpus", "trait": "projection"})
def good_split(ctx):
    """a split accepted by good_split satisfies the side conditions of the projection lemma
    (exists x.(A(x,y) and B(y,z)) <=> (exists x.A(x,y)) and B(y,z)) relative to ngo's binding analysis:
    P1 interface variables are global in the new body, P2 the auxiliary rule is safe, P3 projected-away variables
    occur nowhere else, P4 no global variable becomes local, P5 the remaining rule is safe given the interface,
    P6 aggregates are not on both sides, P7 the interface is sorted and duplicate free"""
    ab = BindingAbs(ctx)
    ex, m = ctx.ex, ctx.m
    A = m.AST
    st = ctx.state()
    new_ref, new = ctx.sym_list(st, "new", "ast")
    rest_ref, rest = ctx.sym_list(st, "rest", "ast")
    stm = ctx.sym("stm", "ast")
    wf = wf_of(ctx)
    st.assume(wf.wf("Rule", stm.term, 2))
    i0 = z3.Int("i!wfl")
    for l in (new, rest):
        st.assume(z3.ForAll([i0], z3.Implies(z3.And(0 <= i0, i0 < m.len(l.term, "ast")), wf.wf("body_literal", m.at(l.term, i0, "ast"), 2)), patterns=[m.at(l.term, i0, "ast")]))
    me = ctx.new_object(st, "ProjectionTranslator", unique_names=None)
    res = ctx.call(st, ctx.method("ngo.projection", "ProjectionTranslator", "good_split", me), [new_ref, rest_ref, stm])
    ok, bad = returned(res)
    ctx.cover("reach", st)
    no_raise(ctx, "no-raise", res)
    ln, at = m.lst_funcs("ast")
    x = z3.Const("x!gs", A)
    body = A.Rule_body(stm.term)
    head = A.Rule_head(stm.term)
    n_some = 0
    for i, (s, v) in enumerate(ok):
        if v is None:
            continue
        n_some += 1
        rt = ex.to_term(s, v, LA)
        j, k = z3.Int("j!r"), z3.Int("k!r")
        inres = lambda y: z3.Exists([j], z3.And(0 <= j, j < ln(rt), at(rt, j) == y))
        gv_new = ab.GV(new.term)
        rp = None
        ctx.oblige(f"P1-interface-global-in-new#{i}", s, z3.ForAll([x], z3.Implies(inres(x), z3.Select(gv_new, x))))
        ctx.oblige(f"P2-aux-rule-safe#{i}", s, ab.UB(new.term, ab.empty) == ab.empty)
        elsewhere = z3.Or(ab.vars_of_list(rest.term, x), z3.Select(ab.GVH(s, head), x))
        ctx.oblige(f"P3-projected-vars-local#{i}", s, z3.ForAll([x], z3.Implies(z3.And(z3.Select(gv_new, x), z3.Not(inres(x))), z3.Not(elsewhere))))
        ctx.oblige(
            f"P4-global-stays-global#{i}",
            s,
            z3.ForAll([x], z3.Implies(z3.And(ab.vars_of_list(new.term, x), z3.Not(z3.Select(gv_new, x))), z3.Not(z3.Select(ab.GV(body), x)))),
        )
        resset = z3.Lambda([x], inres(x))
        t_interface = z3.SetIntersect(gv_new, z3.Lambda([x], elsewhere))
        # the prebound set the code handed to the binding analysis of the remaining body
        pre_calls = [e for e in s.log if e[0] == "cbib" and e[1].eq(rest.term) and not e[2].eq(ab.empty)]
        if len(pre_calls) != 1:
            ctx.oblige(f"P5-rest-safe-given-interface#{i}", s, z3.BoolVal(False))
        else:
            tcode = pre_calls[0][2]
            ctx.oblige(
                f"P5-rest-safe-given-interface#{i}",
                s,
                z3.And(
                    ab.UB(rest.term, tcode) == ab.empty,
                    z3.ForAll([x], inres(x) == z3.Select(tcode, x)),
                    z3.ForAll([x], z3.Select(tcode, x) == z3.Select(t_interface, x)),
                ),
            )
        agg_in = lambda lst: z3.Exists([k], z3.And(0 <= k, k < ln(lst), ln(ab.V("BodyAggregate")(at(lst, k))) > 0))
        ctx.oblige(f"P6-aggregates-not-torn#{i}", s, z3.Not(z3.And(agg_in(new.term), agg_in(rest.term))))
        key = ex.ufunc("sortkey_ast", [A], z3.IntSort())
        j2 = z3.Int("j2!r")
        ctx.oblige(
            f"P7-sorted-unique#{i}",
            s,
            z3.ForAll([j, j2], z3.Implies(z3.And(0 <= j, j < j2, j2 < ln(rt)), z3.And(key(at(rt, j)) <= key(at(rt, j2)), at(rt, j) != at(rt, j2)))),
        )
        ctx.oblige(f"P8-proper-split#{i}", s, z3.And(ln(new.term) > 1, ln(new.term) < ln(body)))
    ctx.cover("some-accepting-path", [z3.BoolVal(n_some > 0)])
    ctx.inputs.clear()
