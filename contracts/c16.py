"""C16 -- projection: legality conditions of a rule split (ngo.projection.good_split / project_rule)"""
from __future__ import annotations

import z3

from pyvc.state import fresh_id
from pyvc.unit import unit
from pyvc.values import SV, ListObj, Ref, SetObj, Tup

from .common import no_raise, returned, wf_of

LA = ("list", "ast")
SA = ("set", "ast")


class BindingAbs:
    """ngo's binding analysis as uninterpreted set-valued functions (the analysis itself is *assumed* to
    over-approximate gringo's safety; here only what good_split does with its results is verified)"""

    def __init__(self, ctx):
        ex, m = self.ex, self.m = ctx.ex, ctx.m
        self.B = ex.ufunc("B_bound", [m.sort(LA), m.sort(SA)], m.sort(SA))
        self.UB = ex.ufunc("UB_unbound", [m.sort(LA), m.sort(SA)], m.sort(SA))
        self.NB = ex.ufunc("H_needbound", [m.AST, m.sort(LA)], m.sort(SA))
        self.NNB = ex.ufunc("H_noboundneeded", [m.AST, m.sort(LA)], m.sort(SA))
        self.collect = {}
        self.empty = z3.K(m.AST, False)
        self.anon = m.AST.Variable(m.strlit("_"))
        ctx.assume_note("collect_binding_information_body/head and collect_ast are uninterpreted (B, UB, NB, NNB, V): ngo's binding analysis is assumed to over-approximate gringo's safety check")

        def cbib(e, s, a, k):
            lst = e.to_term(s, a[0], LA)
            pre = a[1] if len(a) > 1 else k.get("prebound")
            pt = self.empty if pre is None else e.to_term(s, pre, SA)
            s.log.append(("cbib", lst, pt))
            b = s.alloc(SetObj(sv=SV(self.B(lst, pt), SA)))
            u = s.alloc(SetObj(sv=SV(self.UB(lst, pt), SA)))
            return [(s, Tup((b, u)))]

        def cbih(e, s, a, k):
            body = e.to_term(s, a[1], LA) if not (isinstance(a[1], Ref) and s.heap[a[1].id].items == ()) else self.nil(s)
            b = s.alloc(SetObj(sv=SV(self.NB(a[0].term, body), SA)))
            u = s.alloc(SetObj(sv=SV(self.NNB(a[0].term, body), SA)))
            return [(s, Tup((b, u)))]

        def collect_ast(e, s, a, k):
            name = a[1] if len(a) > 1 else k.get("ast_name")
            f = self.V(name)
            return [(s, s.alloc(ListObj(sv=SV(f(a[0].term), LA))))]

        ex.overrides["ngo.utils.ast:collect_binding_information_body"] = cbib
        ex.overrides["ngo.utils.ast:collect_binding_information_head"] = cbih
        ex.overrides["ngo.utils.ast:collect_ast"] = collect_ast

    def V(self, name):
        if name not in self.collect:
            self.collect[name] = self.ex.ufunc("collect_" + name, [self.m.AST], self.m.sort(LA))
        return self.collect[name]

    def nil(self, s):
        if not hasattr(self, "_nil"):
            self._nil = z3.Const("nil_ast_list", self.m.sort(LA))
        s.assume(self.m.len(self._nil, "ast") == 0)
        return self._nil

    def GV(self, lst):
        return z3.SetUnion(self.B(lst, self.empty), self.UB(lst, self.empty))

    def GVH(self, s, head):
        n = self.nil(s)
        return z3.SetUnion(self.NB(head, n), self.NNB(head, n))

    def vars_of_list(self, lst, x):
        """x is a non-anonymous variable collected from some element of lst"""
        m = self.m
        ln, at = m.lst_funcs("ast")
        i, j = z3.Int(f"i!v{fresh_id()}"), z3.Int(f"j!v{fresh_id()}")
        c = self.V("Variable")(at(lst, i))
        return z3.And(x != self.anon, z3.Exists([i, j], z3.And(0 <= i, i < ln(lst), 0 <= j, j < ln(c), at(c, j) == x)))


@unit("C16.good_split", "C16", "ngo.projection:ProjectionTranslator.good_split", fallback={"mirror": "corpus", "trait": "projection"})
def good_split(ctx):
    """a split accepted by good_split satisfies the side conditions of the projection lemma
    (exists x.(A(x,y) and B(y,z)) <=> (exists x.A(x,y)) and B(y,z)) relative to ngo's binding analysis:
    P1 interface variables are global in the new body, P2 the auxiliary rule is safe, P3 projected-away variables
    occur nowhere else, P4 no global variable becomes local, P5 the remaining rule is safe given the interface,
    P6 aggregates are not on both sides, P7 the interface is sorted and duplicate free"""
    ab = BindingAbs(ctx)
    ex, m = ctx.ex, ctx.m
    A = m.AST
    st = ctx.state()
    new_ref, new = ctx.sym_list(st, "new", "ast")
    rest_ref, rest = ctx.sym_list(st, "rest", "ast")
    stm = ctx.sym("stm", "ast")
    wf = wf_of(ctx)
    st.assume(wf.wf("Rule", stm.term, 2))
    i0 = z3.Int("i!wfl")
    for l in (new, rest):
        st.assume(z3.ForAll([i0], z3.Implies(z3.And(0 <= i0, i0 < m.len(l.term, "ast")), wf.wf("body_literal", m.at(l.term, i0, "ast"), 2)), patterns=[m.at(l.term, i0, "ast")]))
    me = ctx.new_object(st, "ProjectionTranslator", unique_names=None)
    res = ctx.call(st, ctx.method("ngo.projection", "ProjectionTranslator", "good_split", me), [new_ref, rest_ref, stm])
    ok, bad = returned(res)
    ctx.cover("reach", st)
    no_raise(ctx, "no-raise", res)
    ln, at = m.lst_funcs("ast")
    x = z3.Const("x!gs", A)
    body = A.Rule_body(stm.term)
    head = A.Rule_head(stm.term)
    n_some = 0
    for i, (s, v) in enumerate(ok):
        if v is None:
            continue
        n_some += 1
        rt = ex.to_term(s, v, LA)
        j, k = z3.Int("j!r"), z3.Int("k!r")
        inres = lambda y: z3.Exists([j], z3.And(0 <= j, j < ln(rt), at(rt, j) == y))
        gv_new = ab.GV(new.term)
        rp = None
        ctx.oblige(f"P1-interface-global-in-new#{i}", s, z3.ForAll([x], z3.Implies(inres(x), z3.Select(gv_new, x))))
        ctx.oblige(f"P2-aux-rule-safe#{i}", s, ab.UB(new.term, ab.empty) == ab.empty)
        elsewhere = z3.Or(ab.vars_of_list(rest.term, x), z3.Select(ab.GVH(s, head), x))
        ctx.oblige(f"P3-projected-vars-local#{i}", s, z3.ForAll([x], z3.Implies(z3.And(z3.Select(gv_new, x), z3.Not(inres(x))), z3.Not(elsewhere))))
        ctx.oblige(
            f"P4-global-stays-global#{i}",
            s,
            z3.ForAll([x], z3.Implies(z3.And(ab.vars_of_list(new.term, x), z3.Not(z3.Select(gv_new, x))), z3.Not(z3.Select(ab.GV(body), x)))),
        )
        resset = z3.Lambda([x], inres(x))
        t_interface = z3.SetIntersect(gv_new, z3.Lambda([x], elsewhere))
        # the prebound set the code handed to the binding analysis of the remaining body
        pre_calls = [e for e in s.log if e[0] == "cbib" and e[1].eq(rest.term) and not e[2].eq(ab.empty)]
        if len(pre_calls) != 1:
            ctx.oblige(f"P5-rest-safe-given-interface#{i}", s, z3.BoolVal(False))
        else:
            tcode = pre_calls[0][2]
            ctx.oblige(
                f"P5-rest-safe-given-interface#{i}",
                s,
                z3.And(
                    ab.UB(rest.term, tcode) == ab.empty,
                    z3.ForAll([x], inres(x) == z3.Select(tcode, x)),
                    z3.ForAll([x], z3.Select(tcode, x) == z3.Select(t_interface, x)),
                ),
            )
        agg_in = lambda lst: z3.Exists([k], z3.And(0 <= k, k < ln(lst), ln(ab.V("BodyAggregate")(at(lst, k))) > 0))
        ctx.oblige(f"P6-aggregates-not-torn#{i}", s, z3.Not(z3.And(agg_in(new.term), agg_in(rest.term))))
        key = ex.ufunc("sortkey_ast", [A], z3.IntSort())
        j2 = z3.Int("j2!r")
        ctx.oblige(
            f"P7-sorted-unique#{i}",
            s,
            z3.ForAll([j, j2], z3.Implies(z3.And(0 <= j, j < j2, j2 < ln(rt)), z3.And(key(at(rt, j)) <= key(at(rt, j2)), at(rt, j) != at(rt, j2)))),
        )
        ctx.oblige(f"P8-proper-split#{i}", s, z3.And(ln(new.term) > 1, ln(new.term) < ln(body)))
    ctx.cover("some-accepting-path", [z3.BoolVal(n_some > 0)])
    ctx.inputs.clear()


@unit("C16.project_rule", "C16", "ngo.projection:ProjectionTranslator.project_rule", fallback={"mirror": "corpus", "trait": "projection"})
def project_rule(ctx):
    """project_rule returns either the rule unchanged or exactly two rules: an auxiliary rule whose head is a positive atom
    over a *fresh* predicate applied to the interface variables good_split returned and whose body is the moved subset,
    and the original rule with the same head whose body is the literals that were not moved followed by that atom;
    moved and remaining literals are literals of the original body and every original literal is in one of the two"""
    ex, m = ctx.ex, ctx.m
    A = m.AST
    S = m.enums["Sign"][1]
    wf = wf_of(ctx)
    st = ctx.state()
    stm = ctx.sym("stm", "ast")
    st.assume(wf.wf("Rule", stm.term, 1))
    body = A.Rule_body(stm.term)
    ln, at = m.lst_funcs("ast")
    LL = ("list", LA)
    subsets_f = ex.ufunc("largest_subset", [m.sort(LA)], m.sort(LL))
    lnL, atL = m.lst_funcs(LA)

    def largest_subset(e, s, a, k):
        t = e.to_term(s, a[0], LA)
        i, j, kk = z3.Int(f"i!ls{fresh_id()}"), z3.Int(f"j!ls{fresh_id()}"), z3.Int(f"k!ls{fresh_id()}")
        sub = atL(subsets_f(t), i)
        s.assume(z3.ForAll([i, j], z3.Implies(z3.And(0 <= i, i < lnL(subsets_f(t)), 0 <= j, j < ln(sub)), z3.Exists([kk], z3.And(0 <= kk, kk < ln(t), at(t, kk) == at(sub, j)))), patterns=[at(sub, j)]))
        return [(s, s.alloc(ListObj(sv=SV(subsets_f(t), LL))))]

    ex.overrides["ngo.utils.ast:largest_subset"] = largest_subset
    ctx.assume_note("largest_subset is uninterpreted: assumed to return sequences whose elements are elements of its argument")

    def good_split_stub(e, s, a, k):
        s2 = s.fork()
        sv = e.fresh(s2, "split_vars", LA)
        s2.log.append(("good_split", a[1], a[2], sv))
        return [(s, None), (s2, s2.alloc(ListObj(sv=sv)))]

    ex.overrides["ngo.projection:ProjectionTranslator.good_split"] = good_split_stub
    known = ctx.sym("known_predicates", ("set", ("rec", "Predicate")))

    def new_aux(e, s, a, k):
        p = e.fresh(s, "aux_pred", ("rec", "Predicate"))
        s.assume(z3.Not(z3.Select(known.term, p.term)), m.rec_acc("Predicate", "arity")(p.term) == e.to_term(s, a[1], "int"))
        s.log.append(("new_auxpredicate", p))
        return [(s, p)]

    ex.overrides["ngo.utils.globals:UniqueNames.new_auxpredicate"] = new_aux
    ctx.assume_note("good_split and new_auxpredicate are used through their contracts (C16.good_split, C07.new_auxpredicate)")
    un = ctx.new_object(st, "UniqueNames", auxcounter=0, predicates=st.alloc(SetObj(sv=known)))
    me = ctx.new_object(st, "ProjectionTranslator", unique_names=un)
    res = ctx.call(st, ctx.method("ngo.projection", "ProjectionTranslator", "project_rule", me), [stm])
    ok, bad = returned(res)
    ctx.cover("reach", st)
    no_raise(ctx, "no-raise", res)
    j, kq = z3.Int("j!pr"), z3.Int("k!pr")
    inlist = lambda lst, x: z3.Exists([kq], z3.And(0 <= kq, kq < ln(lst), at(lst, kq) == x))
    n_split = 0
    for n, (s, r) in enumerate(ok):
        items = ex.B.concrete_items(s, r)
        if items is None:
            ctx.oblige(f"result-shape#{n}", s, z3.BoolVal(False))
            continue
        if len(items) == 1:
            ctx.oblige(f"unchanged#{n}", s, items[0].term == stm.term, kind="frame", replay={"mirror": "project_rule"})
            continue
        n_split += 1
        calls = [e for e in s.log if e[0] == "new_auxpredicate"]
        gs = [e for e in s.log if e[0] == "good_split"]
        okshape = len(items) == 2 and len(calls) == 1 and len(gs) >= 1
        ctx.oblige(f"two-rules-one-fresh-predicate#{n}", s, z3.BoolVal(bool(okshape)), replay={"mirror": "project_rule"})
        if not okshape:
            continue
        aux, upd = items[0].term, items[1].term
        p = calls[0][1].term
        _g, new_v, rest_v, split = gs[-1]
        new_t, rest_t = ex.to_term(s, new_v, LA), ex.to_term(s, rest_v, LA)
        head = A.Rule_head(aux)
        sym = A.SymbolicAtom_symbol(A.Literal_atom(head))
        ctx.oblige(
            f"aux-rule#{n}",
            s,
            z3.And(
                A.is_Rule(aux),
                A.is_Literal(head),
                A.Literal_sign(head) == S["NoSign"],
                A.is_SymbolicAtom(A.Literal_atom(head)),
                A.is_Function(sym),
                A.Function_name(sym) == m.rec_acc("Predicate", "name")(p),
                A.Function_arguments(sym) == split.term,
                ln(split.term) == m.rec_acc("Predicate", "arity")(p),
                ln(A.Rule_body(aux)) == ln(new_t),
                z3.ForAll([j], z3.Implies(z3.And(0 <= j, j < ln(new_t)), at(A.Rule_body(aux), j) == at(new_t, j))),
            ),
            replay={"mirror": "project_rule"},
        )
        ub = A.Rule_body(upd)
        ctx.oblige(
            f"updated-rule#{n}",
            s,
            z3.And(
                A.is_Rule(upd),
                A.Rule_head(upd) == A.Rule_head(stm.term),
                ln(ub) == ln(rest_t) + 1,
                at(ub, ln(rest_t)) == head,
                z3.ForAll([j], z3.Implies(z3.And(0 <= j, j < ln(rest_t)), at(ub, j) == at(rest_t, j))),
            ),
            replay={"mirror": "project_rule"},
        )
        ctx.oblige(
            f"partition#{n}",
            s,
            z3.And(
                z3.ForAll([j], z3.Implies(z3.And(0 <= j, j < ln(new_t)), inlist(body, at(new_t, j)))),
                z3.ForAll([j], z3.Implies(z3.And(0 <= j, j < ln(rest_t)), z3.And(inlist(body, at(rest_t, j)), z3.Not(inlist(new_t, at(rest_t, j)))))),
                z3.ForAll([j], z3.Implies(z3.And(0 <= j, j < ln(body)), z3.Or(inlist(new_t, at(body, j)), inlist(rest_t, at(body, j))))),
            ),
            replay={"mirror": "project_rule"},
        )
    ctx.cover("some-split-path", [z3.BoolVal(n_split > 0)])
    ctx.inputs = {"stm": stm}
