"""AggAnalytics (ngo.utils.ast): the bound analysis shared by minmax_chains (C12) and sum_chains (C13)"""
from __future__ import annotations

import z3

from pyvc.unit import unit
from pyvc.values import SV, ListObj, Ref

from .common import no_raise, returned, sem_of, wf_of


def _agg_units(prop, prefix):
    @unit(f"{prefix}.AggAnalytics.init", prop, "ngo.utils.ast:AggAnalytics.__init__")
    def _init(ctx):
        """bounds + equal_variable_bound together mean exactly what the two guards of the aggregate mean:
        for every aggregate value v and assignment env:  (all bounds hold as right guards for v) and
        (every recorded variable equals v)  <=>  left guard holds and right guard holds"""
        sem, wf, m = sem_of(ctx), wf_of(ctx), ctx.m
        A = m.AST
        node = ctx.sym("node", "ast")
        st = ctx.state()
        st.assume(z3.Or(wf.wf("BodyAggregate", node.term, 2), wf.wf("HeadAggregate", node.term, 2), wf.wf("Aggregate", node.term, 2)))
        me = ctx.new_object(st, "AggAnalytics")
        res = ctx.call(st, ctx.method("ngo.utils.ast", "AggAnalytics", "__init__", me), [node])
        ok, bad = returned(res)
        ctx.cover("reach", st)
        v = z3.Const("agg_value", sem.Val)
        env = z3.Const("env", sem.Env)
        lg = ctx.ex.B.ast_field(node.term, "left_guard")[0][1]
        rg = ctx.ex.B.ast_field(node.term, "right_guard")[0][1]
        orig = z3.And(sem.guard_left(lg, v, env), sem.guard_right(rg, v, env))
        for i, (s, _r) in enumerate(ok):
            o = s.heap[me.id]
            bounds = ctx.ex.B.concrete_items(s, o.get("bounds"))
            eqs = ctx.ex.B.concrete_items(s, o.get("equal_variable_bound"))
            parts = []
            shape = []
            for b in bounds:
                shape.append(A.is_Guard(b.term))
                parts.append(sem.guard_right(b.term, v, env))
            for nme in eqs:
                parts.append(sem.lookup(env, ctx.ex.to_term(s, nme, "str")) == v)
            ctx.oblige(f"post-shape#{i}", s, z3.And(*shape) if shape else z3.BoolVal(True), replay={"mirror": "agg_analytics"})
            ctx.oblige(f"post-meaning#{i}", s, orig == (z3.And(*parts) if parts else z3.BoolVal(True)), replay={"mirror": "agg_analytics"})
        no_raise(ctx, "no-raise", res)

    for fname, le in (("guaranteed_leq", True), ("guaranteed_geq", False)):

        def _mk(fname=fname, le=le):
            @unit(f"{prefix}.AggAnalytics.{fname}", prop, f"ngo.utils.ast:AggAnalytics.{fname}")
            def _g(ctx):
                """result True  =>  every aggregate value satisfying all recorded bounds is <= number (>= number)"""
                sem, wf, m = sem_of(ctx), wf_of(ctx), ctx.m
                A = m.AST
                st = ctx.state()
                bounds_ref, bounds = ctx.sym_list(st, "bounds", "ast")
                ln, at = m.lst_funcs("ast")
                i = z3.Int("i!b")
                st.assume(z3.ForAll([i], z3.Implies(z3.And(0 <= i, i < ln(bounds.term)), wf.wf("Guard", at(bounds.term, i), 2)), patterns=[at(bounds.term, i)]))
                number = ctx.sym("number", "int")
                me = ctx.new_object(st, "AggAnalytics", bounds=bounds_ref, equal_variable_bound=st.alloc(ListObj(items=())))
                res = ctx.call(st, ctx.method("ngo.utils.ast", "AggAnalytics", fname, me), [number])
                ok, bad = returned(res)
                ctx.cover("reach", st)
                v = z3.Const("agg_value", sem.Val)
                env = z3.Const("env", sem.Env)
                allhold = z3.ForAll([i], z3.Implies(z3.And(0 <= i, i < ln(bounds.term)), sem.guard_right(at(bounds.term, i), v, env)), patterns=[at(bounds.term, i)])
                concl = sem.vle(v, sem.vnum(number.term)) if le else sem.vle(sem.vnum(number.term), v)
                for n, (s, r) in enumerate(ok):
                    t = ctx.ex.as_z3_bool(ctx.ex.truth(s, r))
                    ctx.oblige(f"post#{n}", s, z3.Implies(z3.And(t, allhold), concl), replay={"mirror": "guaranteed", "fname": fname})
                no_raise(ctx, "no-raise", res)

        _mk()
