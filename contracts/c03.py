"""C03 -- optimize always returns: absence of AssertionError / TypeError / AttributeError / IndexError / KeyError in the
functions under contract, for every well-formed input in ngo's normal form.  Termination of the fixpoint loops and
exceptions inside sympy / networkx / clingo are NOT decided here."""
from __future__ import annotations

import z3

from pyvc.loops import LoopSpec
from pyvc.state import fresh_id
from pyvc.unit import UNITS, unit
from pyvc.values import SV, DictObj, ListObj, Obj, Opaque, Ref, SetObj

from . import c05, c07, c08, c09, c11, c12, c13, c14, c15, c16, c18  # noqa: F401  (registers the units reused below)
from .c12 import nf_body_literal, wf_rule_or_minimize
from .common import no_raise, returned, wf_of

REUSED = [
    "C05.guards", "C05.count_to_sum", "C05.equality",
    "C07.new_predicate", "C07.new_auxpredicate", "C07.make_unique", "C07.UniqueNames.init",
    "C08.superseeded", "C08.create_mappings", "C08.transitive_closure", "C08.true", "C08.false", "C08.remove_true_literals", "C08.contains_false",
    "C11.inequalities", "C11.unequal",
    "C12.AggAnalytics.init", "C12.AggAnalytics.guaranteed_leq", "C12.AggAnalytics.guaranteed_geq", "C12.minmax_agg", "C12.process_rule", "C12.replace_orig",
    "C09.remove_unused", "C09.interface-positions-used",
    "C13.calc_at_most_on_rule",
    "C14.to_sympy",
    "C15.inline_minimize", "C15.compute_new_body_elements", "C15.inline_body_aggregate",
    "C16.good_split",
    "C18.auto_detect_input", "C18.auto_detect_output",
]


def _reuse(src_uid):
    src = UNITS[src_uid]
    new_uid = "C03." + src_uid.split(".", 1)[1] + ".no-exception"

    @unit(new_uid, "C03", src.function, doc=f"no exception on any path of {src.function} under its precondition (same symbolic execution as {src_uid})", fallback=src.fallback)
    def _u(ctx, src=src):
        src.run(ctx)
        ctx.adopt_engine_obligations()
        unit_replay = next((o.replay for o in ctx.obligations if o.replay), None)
        keep = []
        n_paths = 0
        for o in ctx.obligations:
            if o.kind in ("cover", "canary") or "/no-raise" in o.name:
                if o.replay is None and unit_replay is not None and "/no-raise" in o.name:
                    o.replay = dict(unit_replay, no_exception=True)
                keep.append(o)
            else:
                n_paths += 1
        ctx.obligations = keep
        # every explored returning path is a path without exception: record that the function was really executed
        ctx.oblige("explored-paths-return", [], z3.BoolVal(n_paths > 0), kind="assert")


for _uid in REUSED:
    _reuse(_uid)


@unit("C03.to_sympy_bodyaggregate", "C03", "ngo.math_simplification:Goebner._to_sympy_bodyaggregate", fallback={"mirror": "corpus_no_exception"})
def to_sympy_bodyaggregate(ctx):
    """no assertion failure / attribute error for any well-formed body aggregate in normal form (guards may be absent)"""
    m, ex = ctx.m, ctx.ex
    wf = wf_of(ctx)
    A = m.AST
    st = ctx.state()
    agg = ctx.sym("agg", "ast")
    neg = ctx.sym("neg", "bool")
    st.assume(wf.wf("BodyAggregate", agg.term, 2))
    st.assume(z3.Implies(A.BodyAggregate_right_guard(agg.term) != m.NoneAST, A.BodyAggregate_left_guard(agg.term) != m.NoneAST))
    me = ctx.new_object(st, "Goebner", _sym2agg=st.alloc(DictObj()))
    expr = ex.ufunc("sympy_expr", [m.AST], m.AST)
    ex.overrides["ngo.math_simplification:Goebner._to_sympy_term"] = lambda e, s, a, k: [(s, Opaque("sympy_term")), (s.fork(), None)]
    ex.overrides["ngo.math_simplification:Goebner._to_equality"] = lambda e, s, a, k: [(s, Opaque("sympy_eq"))]
    ex.opaque_handlers["sympy.Dummy"] = lambda e, s, a, k: [(s, Opaque("dummy"))]
    res = ctx.call(st, ctx.method("ngo.math_simplification", "Goebner", "_to_sympy_bodyaggregate", me), [agg, neg])
    ok, bad = returned(res)
    ctx.cover("reach", st)
    no_raise(ctx, "no-raise", res, kind="assert")
    ctx.oblige("explored-paths-return", [], z3.BoolVal(len(ok) > 0), kind="assert")
    ctx.assume_note("sympy objects (Dummy, expressions) are opaque; _to_sympy_term / _to_equality are uninterpreted (may return None)")
