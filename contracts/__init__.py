"""sidecar contracts: one module per property; importing a module registers its units"""
