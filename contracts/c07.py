"""C07 -- interface predicates untouched, invented names fresh (ngo.utils.globals)"""
from __future__ import annotations

import z3

from pyvc.loops import LoopSpec
from pyvc.state import fresh_id
from pyvc.unit import unit
from pyvc.values import SV, ListObj, Obj, Ref, SetObj

from .common import no_raise, returned, wf_of

PRED = ("rec", "Predicate")
SP = ("set", PRED)


def _pred(m, name, arity):
    return m.rec_ctor("Predicate")(name, arity)


@unit("C07.new_predicate", "C07", "ngo.utils.globals:UniqueNames.new_predicate", fallback="new_predicate")
def new_predicate(ctx):
    """new_predicate(similar, arity): the result was not a known predicate, has the requested arity, is recorded as
    known afterwards (so later requests differ from it) and nothing else changes in the known set"""
    ex, m = ctx.ex, ctx.m
    st = ctx.state()
    preds = ctx.sym("predicates", SP)
    similar, arity = ctx.sym("similar", "str"), ctx.sym("arity", "int")
    pref = st.alloc(SetObj(sv=preds))
    me = ctx.new_object(st, "UniqueNames", auxcounter=0, predicates=pref)
    key = ("ngo.utils.globals:UniqueNames.new_predicate", 0)
    name_of, arity_of = m.rec_acc("Predicate", "name"), m.rec_acc("Predicate", "arity")

    def inv(c):
        p = c.term("p", PRED)
        cnt = c.term("counter", "int")
        cur = ex.to_term(c.st, c.st.heap[c.var("self").id].get("predicates"), SP)
        k = z3.Int(f"c!inv{fresh_id()}")
        shape = z3.Or(
            p == _pred(m, similar.term, arity.term),
            z3.Exists([k], z3.And(1 <= k, k < cnt, p == _pred(m, m.str_concat(similar.term, m.str_of_int(k)), arity.term))),
        )
        return z3.And(cnt >= 1, shape, cur == preds.term)

    ex.loop_specs[key] = LoopSpec(inv=inv, modifies={"p": PRED, "counter": "int"}, name="candidate names")
    res = ctx.call(st, ctx.method("ngo.utils.globals", "UniqueNames", "new_predicate", me), [similar, arity])
    ok, bad = returned(res)
    ctx.cover("reach", st)
    no_raise(ctx, "no-raise", res)
    for i, (s, r) in enumerate(ok):
        after = ex.to_term(s, s.heap[me.id].get("predicates"), SP)
        ctx.oblige(f"post-fresh#{i}", s, z3.Not(z3.Select(preds.term, r.term)), replay={"mirror": "new_predicate"})
        ctx.oblige(f"post-arity#{i}", s, arity_of(r.term) == arity.term, replay={"mirror": "new_predicate"})
        ctx.oblige(f"post-recorded#{i}", s, after == z3.Store(preds.term, r.term, True), kind="frame", replay={"mirror": "new_predicate"})
        k = z3.Int("c!post")
        ctx.oblige(
            f"post-name-shape#{i}",
            s,
            z3.Or(name_of(r.term) == similar.term, z3.Exists([k], z3.And(k >= 1, name_of(r.term) == m.str_concat(similar.term, m.str_of_int(k))))),
            replay={"mirror": "new_predicate"},
        )
    ctx.adopt_engine_obligations()
    ctx.assume_note("termination of the candidate-name loops is not proved")


@unit("C07.new_auxpredicate", "C07", "ngo.utils.globals:UniqueNames.new_auxpredicate", fallback="new_auxpredicate")
def new_auxpredicate(ctx):
    """new_auxpredicate(arity): result not previously known, requested arity, recorded, counter only grows"""
    ex, m = ctx.ex, ctx.m
    st = ctx.state()
    preds = ctx.sym("predicates", SP)
    arity = ctx.sym("arity", "int")
    c0 = ctx.sym("auxcounter", "int")
    st.assume(c0.term >= 0)
    pref = st.alloc(SetObj(sv=preds))
    me = ctx.new_object(st, "UniqueNames", auxcounter=c0, predicates=pref)
    key = ("ngo.utils.globals:UniqueNames.new_auxpredicate", 0)
    arity_of = m.rec_acc("Predicate", "arity")

    def inv(c):
        o = c.st.heap[c.var("self").id]
        cur = ex.to_term(c.st, o.get("predicates"), SP)
        cnt = ex.to_term(c.st, o.get("auxcounter"), "int")
        return z3.And(cnt > c0.term, arity_of(c.term("p", PRED)) == arity.term, cur == preds.term)

    ex.loop_specs[key] = LoopSpec(inv=inv, modifies={"p": PRED, "self.auxcounter": "int"}, name="candidate aux names")
    res = ctx.call(st, ctx.method("ngo.utils.globals", "UniqueNames", "new_auxpredicate", me), [arity])
    ok, bad = returned(res)
    ctx.cover("reach", st)
    no_raise(ctx, "no-raise", res)
    for i, (s, r) in enumerate(ok):
        o = s.heap[me.id]
        after = ex.to_term(s, o.get("predicates"), SP)
        ctx.oblige(f"post-fresh#{i}", s, z3.Not(z3.Select(preds.term, r.term)), replay={"mirror": "new_auxpredicate"})
        ctx.oblige(f"post-arity#{i}", s, arity_of(r.term) == arity.term, replay={"mirror": "new_auxpredicate"})
        ctx.oblige(f"post-recorded#{i}", s, after == z3.Store(preds.term, r.term, True), kind="frame", replay={"mirror": "new_auxpredicate"})
        ctx.oblige(f"post-counter-grows#{i}", s, ex.to_term(s, o.get("auxcounter"), "int") > c0.term, kind="frame", replay={"mirror": "new_auxpredicate"})
    ctx.adopt_engine_obligations()


@unit("C07.make_unique", "C07", "ngo.utils.globals:UniqueVariables.make_unique", fallback="make_unique")
def make_unique(ctx):
    """make_unique(var): `_` is returned as is; otherwise the result is a Variable that did not occur in the statement
    (nor was handed out before) and is recorded, so two invented variables never coincide"""
    ex, m = ctx.ex, ctx.m
    A = m.AST
    st = ctx.state()
    allref, allvars = ctx.sym_list(st, "allvars", "ast")
    var = ctx.sym("var", "ast")
    st.assume(A.is_Variable(var.term))
    me = ctx.new_object(st, "UniqueVariables", _allvars=allref)
    key = ("ngo.utils.globals:UniqueVariables.make_unique", 0)
    ln, at = m.lst_funcs("ast")

    def inv(c):
        cur = ex.to_term(c.st, c.st.heap[c.var("self").id].get("_allvars"), ("list", "ast"))
        return z3.And(c.term("count", "int") >= 0, cur == allvars.term)

    ex.loop_specs[key] = LoopSpec(inv=inv, modifies={"count": "int", "newvar": "ast"}, name="candidate variable names")
    res = ctx.call(st, ctx.method("ngo.utils.globals", "UniqueVariables", "make_unique", me), [var])
    ok, bad = returned(res)
    ctx.cover("reach", st)
    no_raise(ctx, "no-raise", res)
    j = z3.Int("j!mu")
    occurs = lambda x: z3.Exists([j], z3.And(0 <= j, j < ln(allvars.term), at(allvars.term, j) == x))
    anon = A.Variable_name(var.term) == m.strlit("_")
    for i, (s, r) in enumerate(ok):
        after = ex.to_term(s, s.heap[me.id].get("_allvars"), ("list", "ast"))
        ctx.oblige(f"post-anon-unchanged#{i}", s, z3.Implies(anon, z3.And(r.term == var.term, after == allvars.term)), replay={"mirror": "make_unique"})
        ctx.oblige(f"post-fresh#{i}", s, z3.Implies(z3.Not(anon), z3.And(A.is_Variable(r.term), z3.Not(occurs(r.term)))), replay={"mirror": "make_unique"})
        ctx.oblige(
            f"post-recorded#{i}",
            s,
            z3.Implies(
                z3.Not(anon),
                z3.And(ln(after) == ln(allvars.term) + 1, at(after, ln(allvars.term)) == r.term, z3.ForAll([j], z3.Implies(z3.And(0 <= j, j < ln(allvars.term)), at(after, j) == at(allvars.term, j)))),
            ),
            kind="frame",
            replay={"mirror": "make_unique"},
        )
    ctx.adopt_engine_obligations()


SPRED = ("rec", "SignedPredicate")


@unit("C07.UniqueNames.init", "C07", "ngo.utils.globals:UniqueNames.__init__")
def unique_names_init(ctx):
    """the vocabulary against which names are made fresh contains every declared input predicate and every predicate
    the collector `predicates` reports for any statement of the program (collector completeness itself: C18)"""
    ex, m = ctx.ex, ctx.m
    st = ctx.state()
    prg_ref, prg = ctx.sym_list(st, "prg", "ast")
    in_ref, inp = ctx.sym_list(st, "input_predicates", PRED)
    preds_of = ex.ufunc("predicates_of", [m.AST], m.sort(("list", SPRED)))

    def predicates(e, s, a, k):
        return [(s, s.alloc(ListObj(sv=SV(preds_of(a[0].term), ("list", SPRED)))))]

    ex.overrides["ngo.utils.ast:predicates"] = predicates
    me = ctx.new_object(st, "UniqueNames")
    res = ctx.call(st, ctx.method("ngo.utils.globals", "UniqueNames", "__init__", me), [prg_ref, in_ref])
    ok, bad = returned(res)
    ctx.cover("reach", st)
    no_raise(ctx, "no-raise", res)
    lnA, atA = m.lst_funcs("ast")
    lnP, atP = m.lst_funcs(PRED)
    lnS, atS = m.lst_funcs(SPRED)
    p = z3.Const("p!un", m.sort(PRED))
    i, j = z3.Int("i!un"), z3.Int("j!un")
    declared = z3.Exists([i], z3.And(0 <= i, i < lnP(inp.term), atP(inp.term, i) == p))
    occurs = z3.Exists([i, j], z3.And(0 <= i, i < lnA(prg.term), 0 <= j, j < lnS(preds_of(atA(prg.term, i))), m.rec_acc("SignedPredicate", "pred")(atS(preds_of(atA(prg.term, i)), j)) == p))
    for n, (s, _r) in enumerate(ok):
        o = s.heap[me.id]
        known = ex.to_term(s, o.get("predicates"), SP)
        ctx.oblige(f"post-vocabulary#{n}", s, z3.ForAll([p], z3.Select(known, p) == z3.Or(declared, occurs)))
        ctx.oblige(f"post-counter#{n}", s, ex.to_term(s, o.get("auxcounter"), "int") == 0, kind="frame")
    ctx.inputs.clear()


@unit("C07.domain_predicate_names", "C07", "ngo.dependency:DomainPredicates._predicate", fallback="domain_predicate_names")
def domain_predicate_names(ctx):
    """the memoised name factory behind __dom_/__min_/__max_/__next_/__chain predicates: two requests (n1,a1), (n2,a2) in
    a row both return predicates that were not known before, with the requested arities; equal requests give the same
    predicate, different requests give different predicates (so generated names never clash with the source, the
    declarations or each other, also when the same base name is requested with two arities)"""
    ex, m = ctx.ex, ctx.m
    st = ctx.state()
    preds = ctx.sym("predicates", SP)
    n1, n2 = ctx.sym("name1", "str"), ctx.sym("name2", "str")
    a1, a2 = ctx.sym("arity1", "int"), ctx.sym("arity2", "int")
    un = ctx.new_object(st, "UniqueNames", auxcounter=0, predicates=st.alloc(SetObj(sv=preds)))
    for nm in ("__compute_nonstatic_predicates", "__compute_domains"):
        ex.overrides[f"ngo.dependency:DomainPredicates.{nm}"] = lambda e, s, a, k: [(s, None)]

    def new_predicate(e, s, a, k):
        """contract of UniqueNames.new_predicate (proved in C07.new_predicate)"""
        me_, similar, arity = a
        o = s.heap[me_.id]
        cur = e.to_term(s, o.get("predicates"), SP)
        p = e.fresh(s, "newpred", PRED)
        s.assume(z3.Not(z3.Select(cur, p.term)), m.rec_acc("Predicate", "arity")(p.term) == e.to_term(s, arity, "int"))
        s.heap[o.get("predicates").id] = SetObj(sv=SV(z3.Store(cur, p.term, True), SP))
        return [(s, p)]

    ex.overrides["ngo.utils.globals:UniqueNames.new_predicate"] = new_predicate
    from pyvc.values import ClassVal

    made = ex.B.instantiate(st, None, ClassVal("ngo.dependency", "DomainPredicates"), [un, st.alloc(ListObj(items=()))], {})
    ok0, bad0 = returned(made)
    no_raise(ctx, "construct-no-raise", made)
    ctx.cover("reach", st)
    arity_of = m.rec_acc("Predicate", "arity")
    n = 0
    for s0, dp in ok0:
        f = ctx.method("ngo.dependency", "DomainPredicates", "_predicate", dp)
        for s1, r1 in ctx.call(s0, f, [n1, a1]):
            from pyvc.exec import Raised as _R

            if isinstance(r1, _R):
                ctx.oblige(f"no-raise-1#{n}", s1, z3.BoolVal(False), kind="assert")
                continue
            for s2, r2 in ctx.call(s1, f, [n2, a2]):
                n += 1
                if isinstance(r2, _R):
                    ctx.oblige(f"no-raise-2#{n}", s2, z3.BoolVal(False), kind="assert")
                    continue
                same_req = z3.And(n1.term == n2.term, a1.term == a2.term)
                ctx.oblige(f"post-fresh#{n}", s2, z3.And(z3.Not(z3.Select(preds.term, r1.term)), z3.Not(z3.Select(preds.term, r2.term))), replay={"mirror": "domain_predicate_names"})
                ctx.oblige(f"post-arity#{n}", s2, z3.And(arity_of(r1.term) == a1.term, arity_of(r2.term) == a2.term), replay={"mirror": "domain_predicate_names"})
                ctx.oblige(f"post-memo#{n}", s2, z3.Implies(same_req, r1.term == r2.term), replay={"mirror": "domain_predicate_names"})
                ctx.oblige(f"post-distinct#{n}", s2, z3.Implies(z3.Not(same_req), r1.term != r2.term), replay={"mirror": "domain_predicate_names"})
    ctx.assume_note("functools.cache on DomainPredicates._predicate is modelled as a ghost map with the lifetime of one call history (its process-wide lifetime is not modelled: C17)")
