"""C13 -- sum_chains kernels"""
from .agg import _agg_units

_agg_units("C13", "C13")
