"""C13 -- sum_chains kernels"""
from .agg import _agg_units

_agg_units("C13", "C13")

import z3  # noqa: E402

from pyvc.state import fresh_id  # noqa: E402
from pyvc.unit import unit  # noqa: E402
from pyvc.values import SV, ListObj, Obj, Ref, SetObj, Tup  # noqa: E402

from .common import install_collect_ast, no_raise, returned, sem_of, wf_of  # noqa: E402


@unit("C13.calc_at_most_on_rule", "C13", "ngo.sum_aggregates:SumAggregator._calc_at_most_on_rule", fallback={"mirror": "corpus", "trait": "sum_chains"})
def calc_at_most_on_rule(ctx):
    """a predicate is reported as 'at most one' only if the rule's head is a choice, or a #sum/#count head aggregate whose
    elements ALL carry a positive numeric weight, and the bound of that head forces its value to be <= 1 (so at most one
    element can hold); 'at least one' is only reported together with 'at most one'"""
    sem, m, ex = sem_of(ctx), ctx.m, ctx.ex
    wf = wf_of(ctx)
    A = m.AST
    F = m.enums["AggregateFunction"][1]
    st = ctx.state()
    rule = ctx.sym("rule", "ast")
    st.assume(wf.wf("Rule", rule.term, 3))
    # head elements: well-formed two levels below the element, and symbolic atoms carry Function symbols
    # (pools are removed by normalize; classical negation is the recorded finding C03-classical-negation-crash)
    hd = A.Rule_head(rule.term)
    lnq, atq = m.lst_funcs("ast")
    kq = z3.Int("k!wfh")

    def lit_ok(l):
        return z3.And(wf.wf("Literal", l, 2, ctx="literal"), z3.Implies(A.is_SymbolicAtom(A.Literal_atom(l)), A.is_Function(A.SymbolicAtom_symbol(A.Literal_atom(l)))))

    ea = atq(A.Aggregate_elements(hd), kq)
    st.assume(z3.ForAll([kq], z3.Implies(z3.And(A.is_Aggregate(hd), 0 <= kq, kq < lnq(A.Aggregate_elements(hd))), z3.And(A.is_ConditionalLiteral(ea), lit_ok(A.ConditionalLiteral_literal(ea)))), patterns=[ea]))
    eh = atq(A.HeadAggregate_elements(hd), kq)
    ch = A.HeadAggregateElement_condition(eh)
    st.assume(z3.ForAll([kq], z3.Implies(z3.And(A.is_HeadAggregate(hd), 0 <= kq, kq < lnq(A.HeadAggregate_elements(hd))), z3.And(A.is_HeadAggregateElement(eh), A.is_ConditionalLiteral(ch), lit_ok(A.ConditionalLiteral_literal(ch)), wf.wf("HeadAggregateElement", eh, 2))), patterns=[eh]))
    install_collect_ast(ctx)
    SA = ("set", "ast")
    B = ex.ufunc("B_bound", [m.sort(("list", "ast"))], m.sort(SA))

    def cbib(e, s, a, k):
        lst = e.to_term(s, a[0], ("list", "ast"))
        return [(s, Tup((s.alloc(SetObj(sv=SV(B(lst), SA))), s.alloc(SetObj(items=())))))]

    ex.overrides["ngo.utils.ast:collect_binding_information_body"] = cbib
    ctx.assume_note("collect_binding_information_body is uninterpreted")
    # AggAnalytics is used through its contracts (C13.AggAnalytics.*): guaranteed_leq(n) => every admissible value <= n
    v = z3.Const("head_value", sem.Val)
    env = z3.Const("env", sem.Env)

    def guards_hold(node):
        lg_ = ex.B.ast_field(node, "left_guard")[0][1]
        rg_ = ex.B.ast_field(node, "right_guard")[0][1]
        return z3.And(sem.guard_left(lg_, v, env), sem.guard_right(rg_, v, env))

    def agg_init(e, s, a, k):
        s.heap[a[0].id] = s.heap[a[0].id].set("node", a[1])
        return [(s, None)]

    def guaranteed(le):
        def h(e, s, a, k):
            node = s.heap[a[0].id].get("node").term
            nt = e.to_term(s, a[1], "int")
            b = e.ufunc("guaranteed_" + ("leq" if le else "geq"), [m.AST, z3.IntSort()], z3.BoolSort())(node, nt)
            concl = sem.vle(v, sem.vnum(nt)) if le else sem.vle(sem.vnum(nt), v)
            s.assume(z3.Implies(b, z3.Implies(guards_hold(node), concl)))
            return [(s, SV(b, "bool"))]

        return h

    ex.overrides["ngo.utils.ast:AggAnalytics.__init__"] = agg_init
    ex.overrides["ngo.utils.ast:AggAnalytics.guaranteed_leq"] = guaranteed(True)
    ex.overrides["ngo.utils.ast:AggAnalytics.guaranteed_geq"] = guaranteed(False)
    ctx.assume_note("AggAnalytics.__init__/guaranteed_leq/guaranteed_geq are used through their contracts (proved in C13.AggAnalytics.*)")
    me = ctx.new_object(st, "SumAggregator")
    res = ctx.call(st, ctx.method("ngo.sum_aggregates", "SumAggregator", "_calc_at_most_on_rule", me), [rule])
    ok, bad = returned(res)
    ctx.cover("reach", st)
    no_raise(ctx, "no-raise", res, kind="assert")
    head = A.Rule_head(rule.term)
    ln, at = m.lst_funcs("ast")
    lg = ex.B.ast_field(head, "left_guard")[0][1]
    rg = ex.B.ast_field(head, "right_guard")[0][1]
    bound_leq_1 = z3.Implies(z3.And(sem.guard_left(lg, v, env), sem.guard_right(rg, v, env)), sem.vle(v, sem.vnum(z3.IntVal(1))))
    k = z3.Int("k!am")
    el = at(A.HeadAggregate_elements(head), k)
    w = at(A.HeadAggregateElement_terms(el), 0)
    positive_weights = z3.ForAll(
        [k],
        z3.Implies(
            z3.And(0 <= k, k < ln(A.HeadAggregate_elements(head))),
            z3.And(ln(A.HeadAggregateElement_terms(el)) > 0, A.is_SymbolicTerm(w), m.Sym.is_SymNumber(A.SymbolicTerm_symbol(w)), m.Sym.sym_number(A.SymbolicTerm_symbol(w)) > 0),
        ),
    )
    n_rep = 0
    for n, (s, r) in enumerate(ok):
        most, least = r.items
        mi, li = ex.B.concrete_items(s, most), ex.B.concrete_items(s, least)
        if mi is None or li is None:
            ctx.oblige(f"result-shape#{n}", s, z3.BoolVal(False))
            continue
        if not mi:
            ctx.oblige(f"post-at-least-implies-at-most#{n}", s, z3.BoolVal(not li), replay={"mirror": "corpus", "trait": "sum_chains"})
            continue
        n_rep += 1
        ctx.oblige(
            f"post-head-kind#{n}",
            s,
            z3.Or(A.is_Aggregate(head), z3.And(A.is_HeadAggregate(head), z3.Or(A.HeadAggregate_function(head) == F["Count"], A.HeadAggregate_function(head) == F["Sum"]))),
            replay={"mirror": "corpus", "trait": "sum_chains"},
        )
        ctx.oblige(f"post-bound-forces-at-most-one#{n}", s, bound_leq_1, replay={"mirror": "corpus", "trait": "sum_chains"})
        ctx.oblige(f"post-all-weights-positive#{n}", s, z3.Implies(A.is_HeadAggregate(head), positive_weights), replay={"mirror": "corpus", "trait": "sum_chains"})
        ctx.oblige(f"post-one-predicate#{n}", s, z3.BoolVal(len(mi) == 1 and len(li) <= 1), kind="frame", replay={"mirror": "corpus", "trait": "sum_chains"})
    ctx.cover("some-reporting-path", [z3.BoolVal(n_rep > 0)])
    ctx.inputs = {"rule": rule}
